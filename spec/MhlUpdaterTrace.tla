--------------------------- MODULE MhlUpdaterTrace ---------------------------
(* every line: one real CLI invocation with a stubbed update server forced    *)
(* into one schedule of MhlUpdater                                            *)
EXTENDS MhlUpdater, Json, IOUtils

VARIABLE l
TraceLog == ndJsonDeserialize(IOEnv.TRACE_FILE)
\* what the model allows for this schedule
NoticeAllowed(e)  == e.server = "ok" /\ e.version = "newer" /\ e.ref_exit = 0
NoticeExpected(e) == NoticeAllowed(e) /\ e.timing \in {"before", "during_join"}
Verdict(e) ==
  [tid |-> e.tid, i |-> e.i, op |-> e.cmd, exit |-> e.exit, kind |-> "update",
   P_C20_ExitCode |-> e.exit = e.ref_exit /\ e.exc = "",
   P_C20_Stdout   |-> e.stdout_same /\ e.notice_last /\ e.notice_count <= 1,
   P_C20_NoticeOnlyIfNewer |-> e.notice => NoticeAllowed(e),
   P_C20_BoundedDelay |-> e.elapsed_ms <= 1000 + 900,
   M_notice |-> e.notice = NoticeExpected(e),
   A_late |-> e.timing \in {"after_timeout", "never"}]
TInit == /\ l = 1 /\ server = "" /\ version = "" /\ cmdexit = 0 /\ cpc = "" /\ latest = "" /\ finished = FALSE /\ alive = FALSE
         /\ mpc = "" /\ stdout = <<>> /\ exitcode = 0 /\ timer = "" /\ waited = 0
TNext == /\ l <= Len(TraceLog) /\ PrintT(<<"V", ToJson(Verdict(TraceLog[l]))>>) /\ l' = l + 1 /\ UNCHANGED vars
TSpec == TInit /\ [][TNext]_<<l, server, version, cmdexit, cpc, latest, finished, alive, mpc, stdout, exitcode, timer, waited>>
=============================================================================
