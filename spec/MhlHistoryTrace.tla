--------------------------- MODULE MhlHistoryTrace ---------------------------
(***************************************************************************)
(* Trace validation: every line of the ndjson log is one command executed  *)
(* by the real code, with the abstract state observed before and after.    *)
(* For each line the variables of MhlHistory's operators are bound to the  *)
(* *observed* pre-state, Layer M is evaluated to predict the step and      *)
(* compared clause by clause with what happened, and every Layer-P         *)
(* predicate is evaluated on the observed step.  Verdicts are total: one   *)
(* record of named booleans per line, printed as JSON.                     *)
(***************************************************************************)
EXTENDS MhlHistory, Json, IOUtils

VARIABLES l, sealed

TraceLog == ndJsonDeserialize(IOEnv.TRACE_FILE)

(***************************************************************************)
(* JSON -> specification values                                            *)
(***************************************************************************)
ToFn(list, K(_), V(_)) ==
  TLCEval([k \in {K(list[i]) : i \in DOMAIN list} |-> V(list[CHOOSE i \in DOMAIN list : K(list[i]) = k])])
KeyP(x) == x.p
KeyF(x) == x.f
DiskOf(list) == ToFn(list, KeyP, LAMBDA x : x.c)
EntOf(e)  == [c |-> e.c, a |-> e.a]
FileOf(r) == [ents |-> ToFn(r.ents, KeyF, EntOf), prev |-> r.prev]
DirOf(r)  == [fmts |-> SeqSet(r.fmts), prev |-> r.prev]
GenOf(g) ==
  [n     |-> g.n,
   files |-> ToFn(g.files, KeyP, FileOf),
   dirs  |-> ToFn(g.dirs, KeyP, DirOf),
   root  |-> [has |-> g.root.has, fmts |-> SeqSet(g.root.fmts)],
   pats  |-> g.pats,
   refs  |-> {[h |-> g.refs[i].h, n |-> g.refs[i].n] : i \in DOMAIN g.refs},
   proc  |-> g.proc,
   croot |-> g.croot, ceff |-> g.ceff,
   snap  |-> DiskOf(g.snap)]
HistOf(list) ==
  TLCEval([h \in {list[i].h : i \in DOMAIN list} |->
             LET e == list[CHOOSE i \in DOMAIN list : list[i].h = h]
             IN  [i \in DOMAIN e.gens |-> GenOf(e.gens[i])]])
RawHist(list, h) == IF \E i \in DOMAIN list : list[i].h = h
                    THEN <<list[CHOOSE i \in DOMAIN list : list[i].h = h]>> ELSE <<>>
OpOf(o) ==
  IF o.op \in {"create"} THEN [o EXCEPT !.F = SeqSet(o.F)]
  ELSE IF o.op = "createsf" THEN [o EXCEPT !.F = SeqSet(o.F), !.S = SeqSet(o.S)]
  ELSE o
ObOf(e) ==
  [exit |-> e.exit, internal |-> e.internal, missing |-> SeqSet(e.out.missing),
   mismatch |-> SeqSet(e.out.mismatch), new |-> SeqSet(e.out.new), eff |-> e.eff]

\* the packing list written by flatten (the latest manifest below the destination), as read back
FlatOf(e) ==
  LET S == {i \in DOMAIN e.flat.manifests : e.flat.manifests[i].latest}
  IN IF S = {} THEN [files |-> <<>>, ndirs |-> 0, proc |-> "none"]
     ELSE LET m == e.flat.manifests[CHOOSE i \in S : TRUE]
          IN [files |-> ToFn(m.files, KeyP, LAMBDA r : ToFn(r.ents, KeyF, EntOf)), ndirs |-> m.ndirs, proc |-> m.proc]

(***************************************************************************)
(* Byte-level clauses that only exist on real traces                       *)
(***************************************************************************)
\* C06: existing manifests byte-identical, chain keeps its entries and gains exactly one that
\* matches the new file; names follow NNNN_<folder>_<UTC>Z.mhl
Bytes(rawgens) == [i \in DOMAIN rawgens |-> <<rawgens[i].name, rawgens[i].sha>>]
P_C06_Bytes(e) ==
  \A i \in DOMAIN e.pre.hist :
    LET a == e.pre.hist[i]
        bb == RawHist(e.post.hist, a.h)
    IN /\ bb # <<>>
       /\ LET b == bb[1]
          IN /\ IsPrefix(Bytes(a.gens), Bytes(b.gens))
             /\ IsPrefix(a.chain, b.chain)
             /\ b.chain_present /\ b.chain_ok /\ b.stray = a.stray
P_C06_NewEntry(e) ==
  \A j \in DOMAIN e.post.hist :
    LET b  == e.post.hist[j]
        aa == RawHist(e.pre.hist, b.h)
        na == IF aa = <<>> THEN 0 ELSE Len(aa[1].gens)
        ca == IF aa = <<>> THEN 0 ELSE Len(aa[1].chain)
    IN /\ Len(b.gens) = Len(b.chain)
       /\ Len(b.gens) \in {na, na + 1}
       /\ Len(b.chain) - ca = Len(b.gens) - na
       /\ \A i \in DOMAIN b.gens :
            /\ b.gens[i].n = i /\ b.gens[i].nameok /\ b.gens[i].folderok
            /\ b.chain[i].n = i /\ b.chain[i].name = b.gens[i].name /\ b.chain[i].c4ok /\ b.chain[i].present
       /\ b.chain_present /\ b.chain_ok

\* C14: what a command may touch
ReadOnlyOps == {"verify", "verifysf", "verifydh", "verifypl", "diff", "info", "infosf", "hash", "xsdcheck"}
\* W: the histories that gained a generation; S: the histories the command is entitled to write into (InScope)
DeltaOK(e, W, S, d) ==
  \/ d.p.area = "hist" /\ d.p.h \in W /\
       \/ d.k = "created" /\ d.p.rest = ""                         \* a new ascmhl folder
       \/ d.k = "created" /\ d.p.rest \notin {"", "ascmhl_chain.xml"} \* the new manifest
       \/ d.k \in {"created", "content"} /\ d.p.rest = "ascmhl_chain.xml"
  \/ d.p.area = "hist" /\ d.p.h \in W \cup S /\ d.k = "meta" /\ d.p.rest = ""   \* mtime of an ascmhl folder in scope (also when the run failed)
  \/ d.p.area = "media" /\ d.k = "meta" /\ d.p.h \in W /\          \* directory that received a new ascmhl folder
       \E x \in SeqSet(e.delta) : x.p.area = "hist" /\ x.p.h = d.p.h /\ x.k = "created" /\ x.p.rest = ""
WriteOK(e, W, S, d) ==
  d.p.area = "hist" /\ d.p.h \in W \cup S /\ d.k \in {"open-w", "os.mkdir", "os.rename", "os.remove", "os.rmdir"}
P_C14_Frame(e, pre, post, S) ==
  IF e.op.op \in ReadOnlyOps THEN e.delta = <<>> /\ e.writes = <<>>
  ELSE IF e.op.op \in {"create", "createsf"}
       THEN LET W == Wrote(pre, post) IN
            /\ \A i \in DOMAIN e.delta : DeltaOK(e, W, S, e.delta[i])
            /\ \A i \in DOMAIN e.writes : WriteOK(e, W, S, e.writes[i])
            /\ \A h \in W : Cardinality({i \in DOMAIN e.delta : e.delta[i].p.area = "hist" /\ e.delta[i].p.h = h
                                          /\ e.delta[i].k = "created" /\ e.delta[i].p.rest \notin {"", "ascmhl_chain.xml"}}) = 1
       ELSE IF e.op.op = "flatten"
            THEN /\ \A i \in DOMAIN e.delta : e.delta[i].p.area = "flat"
                 /\ \A i \in DOMAIN e.writes : e.writes[i].p.area = "flat"
            ELSE TRUE

\* C11 / C07 ride on every generation ever observed
P_C11_Valid(e) ==
  \A j \in DOMAIN e.post.hist :
     /\ (e.post.hist[j].chain_present => e.post.hist[j].chain_xsd)
     /\ \A i \in DOMAIN e.post.hist[j].gens : e.post.hist[j].gens[i].xsd_ok
P_C07_Recorded(e) ==
  \A j \in DOMAIN e.post.hist : \A i \in DOMAIN e.post.hist[j].gens :
     LET g == e.post.hist[j].gens[i] IN
     /\ \A k \in DOMAIN g.dirs : SeqSet(g.dirs[k].cok) = SeqSet(g.dirs[k].fmts) /\ SeqSet(g.dirs[k].sok) = SeqSet(g.dirs[k].fmts)
                                 /\ SeqSet(g.dirs[k].sfmts) = SeqSet(g.dirs[k].fmts)
     /\ SeqSet(g.root.cok) = SeqSet(g.root.fmts) /\ SeqSet(g.root.sok) = SeqSet(g.root.fmts)
\* C07, relations: two recorded hashes of the same directory and format are equal exactly when the
\* specification's snapshot signatures of the two trees are equal (content: unlabelled content tree;
\* structure: labelled tree) - checked for the generation just written against every earlier one
HsOf(g, rp) == IF rp = Root THEN g.root.hs
               ELSE LET S == {k \in DOMAIN g.dirs : g.dirs[k].p = rp} IN IF S = {} THEN <<>> ELSE g.dirs[CHOOSE k \in S : TRUE].hs
P_C07_Relations(e, pre, post) ==
  \A j \in DOMAIN e.post.hist :
    LET b == e.post.hist[j] IN
    (b.h \in Wrote(pre, post)) =>
      LET n  == Len(b.gens)
          gn == b.gens[n]
          sn == DiskOf(gn.snap)
          paths == {Root} \cup {gn.dirs[k].p : k \in DOMAIN gn.dirs}
      IN \A i \in 1..(n - 1) : \A rp \in paths :
           LET gi == b.gens[i]
               si == DiskOf(gi.snap)
               hn == HsOf(gn, rp)
               hi == HsOf(gi, rp)
               d  == b.h \o rp
           IN \A x \in DOMAIN hn : \A y \in DOMAIN hi :
                (hn[x].f = hi[y].f) =>
                   /\ (hn[x].c = hi[y].c) <=> (CSig(sn, d, gn.croot, gn.ceff) = CSig(si, d, gi.croot, gi.ceff))
                   /\ (hn[x].s = hi[y].s) <=> (SSig(sn, d, gn.croot, gn.ceff) = SSig(si, d, gi.croot, gi.ceff))
\* C08: the parent's directory entry of a nested root carries, per format, exactly the child's own root hash
P_C08_ChildRootBytes(e, pre, post) ==
  \A j \in DOMAIN e.post.hist :
    LET b == e.post.hist[j] IN
    (b.h \in Wrote(pre, post)) =>
      LET g == b.gens[Len(b.gens)] IN
      \A k \in DOMAIN g.refs :
         LET cc == RawHist(e.post.hist, g.refs[k].h) IN
         (cc # <<>> /\ g.refs[k].h \in Wrote(pre, post)) =>
            LET cg == cc[1].gens[Len(cc[1].gens)]
                ph == HsOf(g, Rel(b.h, g.refs[k].h))
            IN (cg.root.has /\ e.op.op = "create") =>
                 /\ Len(ph) = Len(cg.root.hs)
                 /\ \A x \in DOMAIN ph : \E y \in DOMAIN cg.root.hs : cg.root.hs[y] = ph[x]
P_C02_Paths(e) ==
  \A j \in DOMAIN e.post.hist : \A i \in DOMAIN e.post.hist[j].gens :
     LET g == e.post.hist[j].gens[i] IN
     /\ \A k \in DOMAIN g.files : g.files[k].pathok
     /\ \A k \in DOMAIN g.dirs : g.dirs[k].pathok
     /\ Cardinality({g.files[k].p : k \in DOMAIN g.files} \cup {g.dirs[k].p : k \in DOMAIN g.dirs}) = Len(g.files) + Len(g.dirs)
P_C08_RefBytes(e) ==
  \A j \in DOMAIN e.post.hist : \A i \in DOMAIN e.post.hist[j].gens :
     \A k \in DOMAIN e.post.hist[j].gens[i].refs :
        LET r == e.post.hist[j].gens[i].refs[k] IN r.shape /\ r.present /\ r.c4ok

\* C08: a child manifest is completely written (opened for writing) before its parent's manifest
\* position at which a history file is complete under its final name: the rename that moves the finished
\* temporary file into place (or, for a writer working in place, the open of the file itself), and the
\* position at which writing it starts
IsAt(x, h, name) == x.area = "hist" /\ x.h = h /\ x.rest = name
DoneIdx(e, h, name) ==
  LET S == {i \in DOMAIN e.writes : \/ (e.writes[i].k = "os.rename" /\ IsAt(e.writes[i].q, h, name))
                                     \/ (e.writes[i].k = "open-w" /\ IsAt(e.writes[i].p, h, name))}
  IN IF S = {} THEN 0 ELSE Max(S)
StartIdx(e, h, name) ==
  LET S == {i \in DOMAIN e.writes : e.writes[i].k = "open-w" /\ e.writes[i].p.area = "hist" /\ e.writes[i].p.h = h
                                     /\ e.writes[i].p.rest \in {name, name \o ".tmp"}}
  IN IF S = {} THEN 0 ELSE Min(S)
P_C08_Order(e, pre, post) ==
  \A j \in DOMAIN e.post.hist :
     LET b == e.post.hist[j] IN
     (b.h \in Wrote(pre, post)) =>
        LET g == b.gens[Len(b.gens)]
            me == StartIdx(e, b.h, g.name)
        IN /\ me > 0
           /\ \A k \in DOMAIN g.refs :
                 LET c == DoneIdx(e, g.refs[k].h, g.refs[k].name)
                     cc == DoneIdx(e, g.refs[k].h, "ascmhl_chain.xml")
                 IN c > 0 /\ c < cc /\ cc < me

(***************************************************************************)
(* Verdict for one line                                                    *)
(***************************************************************************)
IsCreate(o) == o.op \in {"create", "createsf"}
MRes(pre, dk, o) ==
  IF o.op = "create" THEN CreateResult(pre, dk, o.R, o.F, o.n, o.dr, o.Pabs)
  ELSE CreateSFResult(pre, dk, o.R, o.F, o.S)
MRead(pre, dk, o) ==
  IF o.op = "verify" THEN VerifyResult(pre, dk, o.R, o.Pabs, NoPath)
  ELSE IF o.op = "verifysf" THEN VerifyResult(pre, dk, o.R, <<>>, o.S)
  ELSE DiffResult(pre, dk, o.R, o.Pabs)
GenEq(a, b, field) ==
  CASE field = "files" -> a.files = b.files
    [] field = "dirs"  -> a.dirs = b.dirs
    [] field = "root"  -> a.root = b.root
    [] field = "pats"  -> a.pats = b.pats
    [] field = "refs"  -> a.refs = b.refs
    [] field = "n"     -> a.n = b.n

Verdict(e) ==
  LET sld  == IF e.i = 0 THEN <<>> ELSE sealed
      pre  == HistOf(e.pre.hist)
      post == HistOf(e.post.hist)
      dk   == DiskOf(e.pre.disk)
      o    == OpOf(e.op)
      ob   == ObOf(e)
      ign  == SeqSet(e.ign)
      W    == Wrote(pre, post)
      base == [tid |-> e.tid, i |-> e.i, op |-> o.op, exit |-> e.exit,
               P_C06_AppendOnly |-> P_C06_AppendOnly(pre, post),
               P_C06_Numbered |-> P_C06_Numbered(pre, post),
               P_C06_Bytes |-> P_C06_Bytes(e),
               P_C06_NewEntry |-> P_C06_NewEntry(e) /\ e.stamps_ok,      \* stamps_ok: the time in the new names is the UTC time of the run
               P_C14_Frame |-> P_C14_Frame(e, pre, post, IF o.op \in {"create", "createsf"} THEN InScope(pre, dk, o, ign) ELSE {}),
               P_C14_Scope |-> P_C14_Scope(pre, post, dk, o, ign),
               P_C14_DiskSame |-> e.pre.disk = e.post.disk,
               P_C11_Valid |-> P_C11_Valid(e),
               P_C10_Reread |-> \A j \in DOMAIN e.post.hist : \A i \in DOMAIN e.post.hist[j].gens : e.post.hist[j].gens[i].reread_ok,
               P_C07_Recorded |-> P_C07_Recorded(e),
               P_C07_Relations |-> (e.op.op = "create") => P_C07_Relations(e, pre, post),
               P_C07_Printed |-> (e.op.op = "verifydh" /\ e.op.co /\ e.exit = 0) => (e.co.bad = <<>> /\ e.co.printed = e.co.good /\ e.co.printed >= e.co.ndirs),
               P_C02_Paths |-> P_C02_Paths(e),
               P_C08_RefBytes |-> P_C08_RefBytes(e),
               P_C08_ChildRootBytes |-> (e.op.op = "create") => P_C08_ChildRootBytes(e, pre, post),
               P_C08_Order |-> (e.op.op \in {"create", "createsf"}) => P_C08_Order(e, pre, post)]
  IN IF IsCreate(o)
     THEN LET m == MRes(pre, dk, o)
              both == DOMAIN m.gens \cap W
              eq(field) == \A h \in both : GenEq(m.gens[h], Last(post[h]), field)
          IN base @@
             [kind |-> "create",
              M_exit |-> m.exit = ob.exit, M_wrote |-> DOMAIN m.gens = W,
              M_files |-> eq("files"), M_dirs |-> eq("dirs"), M_root |-> eq("root"),
              M_pats |-> eq("pats"), M_refs |-> eq("refs"), M_n |-> eq("n"),
              M_missing |-> m.missing = ob.missing, M_mismatch |-> m.mismatch \subseteq ob.mismatch,
              M_eff |-> m.eff = ob.eff,
              M_ign |-> {p \in DOMAIN dk : Below(o.R, p) /\ Ign(o.R, p, ob.eff)} = ign,
              P_C02_RecordSet |-> P_C02_RecordSet(pre, post, dk, o, ob, ign),
              P_C02_Digests |-> P_C02_Digests(pre, post, dk, o, ob),
              P_C02_SingleFiles |-> P_C02_SingleFiles(pre, post, dk, o, ob),
              P_C03_NoFalseAlarm |-> P_C03_NoFalseAlarm(pre, dk, sld, o, ob, ign),
              P_C03_Altered |-> P_C03_Altered(pre, dk, o, ob, ign),
              P_C03_Removed |-> P_C03_Removed(pre, dk, o, ob, ign),
              P_C03_Quiet |-> P_C03_Quiet(pre, dk, o, ob, ign),
              P_C04_Judged |-> P_C04_Judged(pre, post, dk, o, ob),
              P_C04_UnalteredOk |-> P_C04_UnalteredOk(pre, dk, o, ob),
              P_C08_Partition |-> P_C08_Partition(pre, post, dk, o, ob),
              P_C08_ChildRoot |-> P_C08_ChildRoot(pre, post, dk, o, ob),
              P_C08_Refs |-> P_C08_Refs(pre, post, dk, o, ob),
              P_C08_WhoWrites |-> P_C08_WhoWrites(pre, post, dk, o, ob, ign),
              P_C17_Renamed |-> (o.op = "create") => P_C17_Renamed(pre, post, dk, o, ob, ign),
              P_C17_NoInternal |-> (o.op = "create") => P_C17_NoInternal(o, ob),
              A_moves |-> o.op = "create" /\ o.dr /\ Len(GensOf(pre, o.R)) > 0 /\ Moves(pre, dk, o.R) # {},
              A_renames |-> HasRenames(pre, dk, o.R),
              P_C12_Excluded |-> P_C12_Excluded(pre, post, o, ob, ign),
              P_C12_Accumulate |-> P_C12_Accumulate(pre, post, o, ob),
              A_unchanged |-> Len(GensOf(pre, o.R)) > 0 /\ Unchanged(pre, dk, sld, o.R, ign),
              A_ambig |-> AmbiguousRecorded(pre, dk, o.R),
              A_nested |-> Cardinality(Visible(pre, dk, o.R)) > 1,
              A_ign |-> ign # {}]
     ELSE IF o.op \in {"verify", "verifysf", "diff"}
     THEN LET m == MRead(pre, dk, o)
          IN base @@
             [kind |-> "read",
              M_exit |-> m.exit = ob.exit,
              M_missing |-> m.missing = ob.missing, M_mismatch |-> m.mismatch = ob.mismatch,
              M_new |-> m.new = ob.new,
              P_C03_NoFalseAlarm |-> P_C03_NoFalseAlarm(pre, dk, sld, o, ob, ign),
              P_C03_Altered |-> P_C03_Altered(pre, dk, o, ob, ign),
              P_C03_Removed |-> P_C03_Removed(pre, dk, o, ob, ign),
              P_C03_Added |-> P_C03_Added(pre, dk, o, ob, ign),
              P_C17_Altered |-> (o.op = "verify") => P_C17_Altered(pre, dk, o, ob, ign),
              A_renames |-> HasRenames(pre, dk, o.R),
              P_C03_Quiet |-> P_C03_Quiet(pre, dk, o, ob, ign),
              A_unchanged |-> Len(GensOf(pre, o.R)) > 0 /\ Unchanged(pre, dk, sld, o.R, ign),
              A_ambig |-> AmbiguousRecorded(pre, dk, o.R),
              A_nested |-> Cardinality(Visible(pre, dk, o.R)) > 1,
              A_ign |-> ign # {}]
     ELSE IF o.op = "verifydh"
     THEN LET m == VerifyDHResultX(pre, dk, o.R, o.Pabs, o.h, o.co, o.ro)
          IN base @@
             [kind |-> "verifydh",
              M_exit |-> m.exit = ob.exit,
              P_C09_Identical |-> P_C09_Identical(pre, dk, o, ob),
              P_C09_Detects |-> P_C09_Detects(pre, dk, o, ob),
              P_C09_NoInternal |-> P_C09_NoInternal(o, ob),
              A_uniform |-> (o.h = "" => UniformFormats(pre, dk, o.R)),
              A_dh |-> \E h \in Visible(pre, dk, o.R) : DHGens(pre, h) # {},
              A_changed |-> DHGens(pre, o.R) # {} /\ \A i \in DHGens(pre, o.R) : ~SameAsGen(pre, dk, o.R, i, o.R, ob.eff)]
     ELSE IF o.op = "flatten"
     THEN LET fl == FlatOf(e)
              m  == FlattenResult(pre, o.R)
          IN base @@
             [kind |-> "flatten",
              M_exit |-> m.exit = ob.exit,
              M_files |-> (ob.exit = 0) => [p \in DOMAIN m.files |-> [f \in DOMAIN m.files[p] |-> m.files[p][f].c]]
                                            = [p \in DOMAIN fl.files |-> [f \in DOMAIN fl.files[p] |-> fl.files[p][f].c]],
              P_C18_Summary |-> P_C18_Summary(pre, dk, o, ob, fl),
              P_C18_Valid |-> e.flat.collection_xsd /\ \A i \in DOMAIN e.flat.manifests : e.flat.manifests[i].xsd_ok,
              A_flat |-> ob.exit = 0]
     ELSE IF o.op = "verifypl"
     THEN LET fl0 == FlatOf(e)
              fl  == [files |-> [p \in {o.R \o q : q \in DOMAIN fl0.files} |-> fl0.files[Rel(o.R, p)]],
                      complete |-> \A p \in DOMAIN dk : (Below(o.R, p) /\ dk[p] # "DIR" /\ p \notin ign)
                                                            => Rel(o.R, p) \in DOMAIN fl0.files]
          IN base @@
             [kind |-> "verifypl",
              \* flatten of a history that never recorded a file writes no packing list: nothing to verify against
              P_C18_VerifyPL |-> fl0.proc = "none" \/ P_C18_VerifyPL(dk, <<>>, o, ob, fl, ign),
              A_flat |-> fl0.proc # "none"]
     ELSE IF o.op = "info"
     THEN LET ob2 == [exit |-> e.exit, listing |-> ToFn(e.info, LAMBDA x : x.h, LAMBDA x : x.ns)]
          IN base @@
             [kind |-> "info",
              P_C19_Info |-> P_C19_Info(pre, dk, o, ob2) /\ Cardinality({e.info[k].h : k \in DOMAIN e.info}) = Len(e.info),   \* each history once
              P_C19_Dates |-> \A k \in DOMAIN e.info :
                                 LET hh == RawHist(e.pre.hist, e.info[k].h)
                                 IN hh # <<>> /\ e.info[k].dates = [i \in DOMAIN hh[1].gens |-> hh[1].gens[i].cdate]]
     ELSE IF o.op = "infosf"
     THEN LET ob2 == [exit |-> e.exit, lines |-> [i \in DOMAIN e.infosf |-> [n |-> e.infosf[i].n, f |-> e.infosf[i].f, c |-> e.infosf[i].c, a |-> e.infosf[i].a]]]
          IN base @@
             [kind |-> "infosf",
              P_C19_InfoSF |-> P_C19_InfoSF(pre, dk, o, ob2)]
     ELSE IF o.op = "xsdcheck"
     THEN base @@ [kind |-> "xsdcheck", P_C11_ToolAgrees |-> e.exit = 0]     \* the tool's own validator accepts what the tool wrote
     ELSE base @@ [kind |-> "other"]

\* the ghost variable of C03 is carried by the trace specification itself, from the observed
\* steps of one trace (lines of a trace are contiguous and start at i = 0)
Init == l = 1 /\ sealed = <<>>
Next == /\ l <= Len(TraceLog)
        /\ PrintT(<<"V", ToJson(Verdict(TraceLog[l]))>>)
        /\ l' = l + 1
        /\ LET e == TraceLog[l]
               cur == IF e.i = 0 THEN <<>> ELSE sealed
           IN sealed' = IF e.op.op \in {"create", "createsf"}
                        THEN SealedNext(cur, DiskOf(e.pre.disk), Wrote(HistOf(e.pre.hist), HistOf(e.post.hist)), OpOf(e.op), e.exit, HistOf(e.post.hist), SeqSet(e.ign))
                        ELSE cur
Spec == Init /\ [][Next]_<<l, sealed>>
=============================================================================
