---- MODULE MC_Xml ----
EXTENDS MhlXml
c_Fmts == <<"c4", "md5", "sha1", "xxh128", "xxh3", "xxh64">>
c_FmtSeqs == {<<>>, <<"c4">>, <<"md5">>, <<"xxh64">>, <<"c4", "md5">>, <<"md5", "sha1", "xxh3">>, <<"c4", "md5", "sha1", "xxh128", "xxh3", "xxh64">>}
====
