----------------------------- MODULE MhlXmlTrace -----------------------------
(* every line: one document shape of MhlXml driven through the real writer   *)
(* and both readers                                                          *)
EXTENDS MhlXml, IOUtils

VARIABLE l
TraceLog == ndJsonDeserialize(IOEnv.TRACE_FILE)
RecOfJ(r) == [kind |-> r.kind, fmts |-> r.fmts, prev |-> r.prev]
DocOfJ(d) == [authors |-> d.authors, location |-> d.location, comment |-> d.comment, root |-> d.root,
              npats |-> d.npats, recs |-> [i \in DOMAIN d.recs |-> RecOfJ(d.recs[i])], nrefs |-> d.nrefs]
Verdict(e) ==
  LET d == DocOfJ(e.doc)
      modelValid == Valid(EmitManifest(d), "")
  IN [tid |-> e.tid, i |-> e.i, op |-> "write", exit |-> 0, kind |-> "xml",
      \* Layer M: the schema automaton and lxml agree, and the emitted tree reads back as the model says
      M_valid |-> e.written /\ (modelValid = e.xsd_ok),
      M_shape |-> e.written /\ e.read # <<>> /\ DocOfJ(e.read) = ReadManifest(EmitManifest(d)),
      \* Layer P
      P_C11_Valid |-> e.written /\ e.xsd_ok /\ e.chain_xsd,
      P_C10_ToolReader |-> e.written /\ e.tool_bad = <<>>,
      P_C10_IndependentReader |-> e.written /\ e.indep_bad = <<>>,
      P_C10_Chain |-> e.written /\ e.chain_bad = <<>>,
      P_C10_Shape |-> e.written /\ e.read # <<>> /\ DocOfJ(e.read) = d,
      P_C14_NoLeftover |-> e.leftover = <<>>]
TInit == l = 1 /\ doc = [stage |-> 0]
TNext == /\ l <= Len(TraceLog) /\ PrintT(<<"V", ToJson(Verdict(TraceLog[l]))>>) /\ l' = l + 1 /\ UNCHANGED doc
TSpec == TInit /\ [][TNext]_<<l, doc>>
=============================================================================
