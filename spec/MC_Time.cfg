SPECIFICATION Spec
CONSTANTS
 Instants <- c_Instants
 Zones <- c_Zones
 Sizes <- c_Sizes
 Mode = "at_date"
INVARIANT Inv_C16_FileDate
INVARIANT Inv_C16_NowDate
INVARIANT Inv_C16_Size
