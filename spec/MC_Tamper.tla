---- MODULE MC_Tamper ----
EXTENDS MhlTamper
c_Order == << <<>>, <<"d">>, <<"d", "e">>, <<"d2">> >>
c_NGens == (<<>> :> 2 @@ <<"d">> :> 3 @@ <<"d", "e">> :> 4 @@ <<"d2">> :> 3)
====
