---- MODULE MC_DirHashSmall ----
EXTENDS MhlDirHash
c_Fmts == <<"md5">>
c_PatNames == <<>>
c_FilePaths == {<<"x">>, <<"y">>, <<"d", "x">>, <<"d", "e", "x">>}
c_DirPaths == {<<"d">>, <<"d", "e">>}
c_Contents == {"c1", "EMPTY"}
====
