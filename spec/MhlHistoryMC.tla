----------------------------- MODULE MhlHistoryMC -----------------------------
(***************************************************************************)
(* State machine over MhlHistory: environment mutations of the media tree  *)
(* and the tool's commands, for exhaustive checking (invariants = Layer P  *)
(* evaluated on Layer M) and for exporting behaviours that the harness     *)
(* replays against the real code.                                          *)
(*                                                                         *)
(* A command is two steps: the command itself, which leaves its operation, *)
(* observation and pre-state in `last` (an "observation state", on which   *)
(* the invariants are evaluated), and Ack, which clears `last`.            *)
(* Observation states have Ack as their only successor, so they cost one   *)
(* invariant evaluation per distinct (pre-state, operation) and nothing    *)
(* else.                                                                   *)
(***************************************************************************)
EXTENDS MhlHistory, Json

CONSTANTS
  FilePaths,    \* paths that may hold a file
  DirPaths,     \* paths that may be directories
  InitDisk,     \* initial disk function
  Contents,     \* content ids a file may take
  Mutable,      \* paths the environment may alter / delete / create / rename
  CmdRoots,     \* roots commands may be started at
  FmtChoices,   \* set of format sets usable with -h
  PatChoices,   \* set of pattern sequences usable with -i
  SFChoices,    \* set of path sets usable with -sf
  Ops,          \* enabled operation kinds
  InitCreates,  \* sequence of roots at which `create` has already run when the exploration starts
  MaxGens,      \* bound on the total number of generations (state constraint)
  MaxOps,       \* bound on behaviour length (export configs)
  KeepSnap      \* keep per-generation tree snapshots (needed by verify -dh only)

VARIABLES disk, hist, sealed, flat, last, behav
vars == <<disk, hist, sealed, flat, last, behav>>

NoOp   == [op |-> "none"]
NoOb   == [exit |-> 0, internal |-> FALSE, missing |-> {}, mismatch |-> {}, new |-> {}, eff |-> <<>>]
NoLast == [op |-> NoOp, ob |-> NoOb, pre |-> <<>>, sealed |-> <<>>, ign |-> {}]
NoFlat == [src |-> NoPath, files |-> <<>>, pats |-> <<>>, disk |-> <<>>]

\* The exploration may start from histories built by a fixed prefix of creates (deep nesting, long
\* histories): the prefix is part of every exported behaviour, so the replay executes it as well.
InitF == CHOOSE F \in FmtChoices : \A G \in FmtChoices : Cardinality(F) <= Cardinality(G)
InitOp(i) == [op |-> "create", R |-> InitCreates[i], F |-> InitF, n |-> FALSE, dr |-> FALSE, P |-> <<>>]
RECURSIVE InitState(_, _, _)
InitState(i, hs, sl) ==
  IF i > Len(InitCreates) THEN [hist |-> hs, sealed |-> sl]
  ELSE LET r == CreateResult(hs, InitDisk, InitCreates[i], InitF, FALSE, FALSE, <<>>)
           hs2 == [h \in DOMAIN hs |-> IF h \in DOMAIN r.gens
                                        THEN Append(hs[h], IF KeepSnap THEN r.gens[h] ELSE [r.gens[h] EXCEPT !.snap = <<>>])
                                        ELSE hs[h]]
       IN InitState(i + 1, hs2, SealedNext(sl, InitDisk, DOMAIN r.gens, InitOp(i), r.exit, hs2, {p \in DOMAIN InitDisk : Below(InitCreates[i], p) /\ Ign(InitCreates[i], p, r.eff)}))
Init ==
  /\ disk = InitDisk
  /\ LET st == InitState(1, [h \in CmdRoots |-> <<>>], <<>>) IN hist = st.hist /\ sealed = st.sealed
  /\ flat = NoFlat
  /\ last = NoLast
  /\ behav = [i \in 1..Len(InitCreates) |-> InitOp(i)]

Log(o) == behav' = Append(behav, o)
TotalGens == LET RECURSIVE S(_) S(Q) == IF Q = {} THEN 0 ELSE LET h == CHOOSE x \in Q : TRUE IN Len(hist[h]) + S(Q \ {h}) IN S(CmdRoots)

(***************************************************************************)
(* Environment                                                             *)
(***************************************************************************)
ParentExists(p) == Len(p) = 1 \/ (Parent(p) \in DOMAIN disk /\ disk[Parent(p)] = "DIR")
Put(p, v) == [q \in DOMAIN disk \cup {p} |-> IF q = p THEN v ELSE disk[q]]
Drop(p)   == [q \in DOMAIN disk \ {p} |-> disk[q]]

EnvAlter(f, c) ==           \* also "add": the file may be absent
  /\ "alter" \in Ops /\ f \in FilePaths \cap Mutable /\ ParentExists(f)
  /\ (f \in DOMAIN disk => disk[f] # c /\ disk[f] # "DIR")
  /\ ("distinct" \in Ops => \A q \in DOMAIN disk : disk[q] # c)   \* scopes with pairwise distinct contents
  /\ disk' = Put(f, c)
  /\ Log([op |-> "alter", p |-> f, c |-> c])
  /\ UNCHANGED <<hist, sealed, flat, last>>
EnvDelete(p) ==             \* a file, or an empty directory that is not a history root
  /\ "delete" \in Ops /\ p \in DOMAIN disk \cap Mutable
  /\ disk[p] = "DIR" => (~\E q \in DOMAIN disk : Below(p, q)) /\ (p \in DOMAIN hist => hist[p] = <<>>)
  /\ disk' = Drop(p)
  /\ Log([op |-> "delete", p |-> p])
  /\ UNCHANGED <<hist, sealed, flat, last>>
EnvDeleteTree(d) ==         \* a directory with everything below it, nested histories included
  /\ "rmtree" \in Ops /\ d \in DOMAIN disk \cap Mutable /\ disk[d] = "DIR"
  /\ disk' = [q \in {x \in DOMAIN disk : ~BelowEq(d, x)} |-> disk[q]]
  /\ hist' = [h \in DOMAIN hist |-> IF BelowEq(d, h) THEN <<>> ELSE hist[h]]
  /\ sealed' = [S \in {x \in DOMAIN sealed : ~BelowEq(d, x)} |-> sealed[S]]
  /\ Log([op |-> "delete", p |-> d])
  /\ UNCHANGED <<flat, last>>
EnvMkdir(d) ==
  /\ "mkdir" \in Ops /\ d \in DirPaths \cap Mutable /\ d \notin DOMAIN disk /\ ParentExists(d)
  /\ disk' = Put(d, "DIR")
  /\ Log([op |-> "mkdir", p |-> d])
  /\ UNCHANGED <<hist, sealed, flat, last>>
EnvRename(f, g) ==
  /\ "rename" \in Ops /\ f \in DOMAIN disk \cap Mutable /\ disk[f] # "DIR"
  /\ g \in FilePaths /\ g \notin DOMAIN disk /\ ParentExists(g)
  /\ disk' = [q \in (DOMAIN disk \ {f}) \cup {g} |-> IF q = g THEN disk[f] ELSE disk[q]]
  /\ Log([op |-> "rename", p |-> f, q |-> g])
  /\ UNCHANGED <<hist, sealed, flat, last>>

\* a whole directory moved (every entry below it moves with it); directories that hold a history stay where they are
Moved(d, e, x) == e \o SubSeq(x, Len(d) + 1, Len(x))
EnvRenameDir(d, e) ==
  /\ "renamedir" \in Ops /\ d \in DOMAIN disk \cap Mutable /\ disk[d] = "DIR"
  /\ e \in DirPaths /\ e \notin DOMAIN disk /\ ParentExists(e) /\ ~BelowEq(d, e)
  /\ \A h \in DOMAIN hist : BelowEq(d, h) => hist[h] = <<>>
  /\ \A x \in DOMAIN disk : BelowEq(d, x) => Moved(d, e, x) \in FilePaths \cup DirPaths
  /\ LET stay == {x \in DOMAIN disk : ~BelowEq(d, x)}
          mv   == {x \in DOMAIN disk : BelowEq(d, x)}
     IN disk' = [q \in stay \cup {Moved(d, e, x) : x \in mv} |->
                   IF q \in stay THEN disk[q] ELSE disk[CHOOSE x \in mv : Moved(d, e, x) = q]]
  /\ Log([op |-> "rename", p |-> d, q |-> e])
  /\ UNCHANGED <<hist, sealed, flat, last>>

(***************************************************************************)
(* Commands.  The observation of a command is what Layer M predicts.       *)
(***************************************************************************)
StripSnap(g) == IF KeepSnap THEN g ELSE [g EXCEPT !.snap = <<>>]
IgnSet(R, eff) == {p \in DOMAIN disk : Below(R, p) /\ Ign(R, p, eff)}
Commit(r) == [h \in DOMAIN hist |-> IF h \in DOMAIN r.gens THEN Append(hist[h], StripSnap(r.gens[h])) ELSE hist[h]]
Observe(o, ob, ign) == last' = [op |-> o, ob |-> ob, pre |-> hist, sealed |-> sealed, ign |-> ign]

Create(R, F, nodh, dr, P) ==
  /\ "create" \in Ops /\ IsDir(disk, R)
  /\ (nodh => "nodh" \in Ops) /\ (dr => "dr" \in Ops) /\ ("dronly" \in Ops => dr)
  /\ LET r == TLCEval(CreateResult(hist, disk, R, F, nodh, dr, P))
         o == [op |-> "create", R |-> R, F |-> F, n |-> nodh, dr |-> dr, P |-> P]
     IN /\ hist' = IF r.abort THEN hist ELSE Commit(r)
        /\ sealed' = SealedNext(sealed, disk, IF r.abort THEN {} ELSE DOMAIN r.gens, o, r.exit, IF r.abort THEN hist ELSE Commit(r), IgnSet(R, r.eff))
        /\ Observe(o, [exit |-> r.exit, internal |-> r.abort, missing |-> r.missing,
                       mismatch |-> r.mismatch, new |-> {}, eff |-> r.eff], IgnSet(R, r.eff))
        /\ Log(o)
  /\ UNCHANGED <<disk, flat>>

CreateSF(R, F, S) ==
  /\ "createsf" \in Ops /\ IsDir(disk, R) /\ S # {}
  /\ \A s \in S : s \in DOMAIN disk /\ Below(R, s)
  /\ LET r == TLCEval(CreateSFResult(hist, disk, R, F, S))
         o == [op |-> "createsf", R |-> R, F |-> F, S |-> S]
     IN /\ hist' = IF r.abort THEN hist ELSE Commit(r)
        /\ sealed' = SealedNext(sealed, disk, IF r.abort THEN {} ELSE DOMAIN r.gens, o, r.exit, IF r.abort THEN hist ELSE Commit(r), {})
        /\ Observe(o, [exit |-> r.exit, internal |-> r.abort, missing |-> {},
                       mismatch |-> r.mismatch, new |-> {}, eff |-> r.eff], {})
        /\ Log(o)
  /\ UNCHANGED <<disk, flat>>

ReadOnly(o, r, eff) ==
  /\ flat' = flat
  /\ Observe(o, [exit |-> r.exit, internal |-> FALSE, missing |-> r.missing,
                 mismatch |-> r.mismatch, new |-> r.new, eff |-> eff], IgnSet(o.R, eff))
  /\ Log(o)
  /\ UNCHANGED <<disk, hist, sealed>>

Verify(R, P) ==
  /\ "verify" \in Ops /\ IsDir(disk, R)
  /\ ReadOnly([op |-> "verify", R |-> R, P |-> P], TLCEval(VerifyResult(hist, disk, R, P, NoPath)), EffPats(hist, R, P))
Diff(R, P) ==
  /\ "diff" \in Ops /\ IsDir(disk, R)
  /\ ReadOnly([op |-> "diff", R |-> R, P |-> P], TLCEval(DiffResult(hist, disk, R, P)), EffPats(hist, R, P))
VerifySF(R, s) ==
  /\ "verifysf" \in Ops /\ IsDir(disk, R) /\ s \in FilePaths /\ Below(R, s)
  /\ ReadOnly([op |-> "verifysf", R |-> R, S |-> s], TLCEval(VerifyResult(hist, disk, R, <<>>, s)), EffPats(hist, R, <<>>))
VerifyDH(R, P) ==
  /\ "verifydh" \in Ops /\ IsDir(disk, R)            \* also on a folder without history: nothing to compare, exit 0
  /\ LET r == TLCEval(VerifyDHResult(hist, disk, R, P))
     IN ReadOnly([op |-> "verifydh", R |-> R, co |-> FALSE, ro |-> FALSE, h |-> "", P |-> P], [exit |-> r.exit, missing |-> {}, mismatch |-> r.baddirs, new |-> {}],
                 EffPats(hist, R, P))

\* flatten writes a packing list outside the tree; `flat` remembers what it holds and the tree it was made from
FlatPats(R) == Dedup(Defaults \o EffPats(hist, R, <<>>))
Complete(R, files, pats) == \A p \in DOMAIN disk : (Below(R, p) /\ disk[p] # "DIR" /\ ~Ign(R, p, pats)) => p \in {R \o q : q \in DOMAIN files}
Flatten(R) ==
  /\ "flatten" \in Ops /\ IsDir(disk, R)
  /\ LET r == TLCEval(FlattenResult(hist, R))
         o == [op |-> "flatten", R |-> R]
     IN /\ flat' = IF r.exit = 0 THEN [src |-> R, files |-> r.files, pats |-> FlatPats(R), disk |-> disk] ELSE flat
        /\ Observe(o, [exit |-> r.exit, internal |-> FALSE, missing |-> {}, mismatch |-> {}, new |-> {}, eff |-> <<>>,
                       flat |-> [files |-> r.files, ndirs |-> 0, proc |-> "flatten"]], {})
        /\ Log(o)
  /\ UNCHANGED <<disk, hist, sealed>>
VerifyPL(R) ==
  /\ "verifypl" \in Ops /\ flat.src = R /\ IsDir(disk, R)
  /\ DOMAIN flat.files # {}            \* a history that never recorded a file leaves no packing list behind
  /\ LET fl == [files |-> [p \in DOMAIN flat.files |-> flat.files[p]], pats |-> flat.pats]
         r == TLCEval(VerifyPLResult(disk, R, [files |-> [p \in {R \o q : q \in DOMAIN flat.files} |-> flat.files[Rel(R, p)]], pats |-> flat.pats]))
         o == [op |-> "verifypl", R |-> R]
     IN /\ Observe(o, [exit |-> r.exit, internal |-> FALSE, missing |-> r.missing, mismatch |-> r.mismatch, new |-> r.new,
                       eff |-> flat.pats,
                       flat |-> [files |-> [p \in {R \o q : q \in DOMAIN flat.files} |-> flat.files[Rel(R, p)]],
                                 complete |-> Complete(R, flat.files, flat.pats)],
                       sealedDisk |-> flat.disk], IgnSet(R, flat.pats))
        /\ Log(o)
  /\ UNCHANGED <<disk, hist, sealed, flat>>
Info(R) ==
  /\ "info" \in Ops /\ IsDir(disk, R)
  /\ LET r == InfoResult(hist, disk, R)
         o == [op |-> "info", R |-> R]
     IN /\ Observe(o, [exit |-> r.exit, internal |-> FALSE, missing |-> {}, mismatch |-> {}, new |-> {}, eff |-> <<>>,
                       listing |-> r.listing], {})
        /\ Log(o)
  /\ UNCHANGED <<disk, hist, sealed, flat>>
InfoSF(s) ==
  /\ "infosf" \in Ops /\ s \in DOMAIN disk /\ disk[s] # "DIR"
  /\ LET r == InfoSFResult(hist, NearestRoot(hist, disk, s), s)
         o == [op |-> "infosf", S |-> s, R |-> NoPath]
     IN /\ Observe(o, [exit |-> r.exit, internal |-> FALSE, missing |-> {}, mismatch |-> {}, new |-> {}, eff |-> <<>>,
                       lines |-> r.lines], {})
        /\ Log(o)
  /\ UNCHANGED <<disk, hist, sealed, flat>>
InfoSFRoot(s, R) ==          \* info -sf FILE ROOT
  /\ "infosf" \in Ops /\ s \in DOMAIN disk /\ disk[s] # "DIR" /\ Below(R, s) /\ IsDir(disk, R)
  /\ LET r == InfoSFResult(hist, R, s)
         o == [op |-> "infosf", S |-> s, R |-> R]
     IN /\ Observe(o, [exit |-> r.exit, internal |-> FALSE, missing |-> {}, mismatch |-> {}, new |-> {}, eff |-> <<>>,
                       lines |-> r.lines], {})
        /\ Log(o)
  /\ UNCHANGED <<disk, hist, sealed, flat>>
XsdCheck(R) ==               \* xsd-schema-check on the latest manifest of the history at R: valid, and read-only
  /\ "xsdcheck" \in Ops /\ IsDir(disk, R) /\ Len(hist[R]) > 0
  /\ Observe([op |-> "xsdcheck", R |-> R], [exit |-> 0, internal |-> FALSE, missing |-> {}, mismatch |-> {}, new |-> {}, eff |-> <<>>], {})
  /\ Log([op |-> "xsdcheck", R |-> R])
  /\ UNCHANGED <<disk, hist, sealed, flat>>
HashCmd(s) ==
  /\ "hash" \in Ops /\ s \in DOMAIN disk /\ disk[s] # "DIR"
  /\ \E f \in SeqSet(Fmts) :
       /\ Observe([op |-> "hash", S |-> s, h |-> f], [exit |-> 0, internal |-> FALSE, missing |-> {}, mismatch |-> {}, new |-> {}, eff |-> <<>>], {})
       /\ Log([op |-> "hash", S |-> s, h |-> f])
  /\ UNCHANGED <<disk, hist, sealed, flat>>

\* verify -dh -co: calculates and prints; recorded hashes in the calculated formats are still compared
VerifyDHCO(R) ==
  /\ "verifydhco" \in Ops /\ IsDir(disk, R)
  /\ LET r == TLCEval(VerifyDHResultX(hist, disk, R, <<>>, "", TRUE, FALSE))
     IN ReadOnly([op |-> "verifydh", R |-> R, co |-> TRUE, ro |-> FALSE, h |-> "", P |-> <<>>],
                 [exit |-> r.exit, missing |-> {}, mismatch |-> r.baddirs, new |-> {}], EffPats(hist, R, <<>>))
\* the option variants: one requested format, -co, -ro
VerifyDHOpt(R, hf, co, ro) ==
  /\ "verifydhopt" \in Ops /\ IsDir(disk, R) /\ (hf # "" \/ ro)
  /\ LET r == TLCEval(VerifyDHResultX(hist, disk, R, <<>>, hf, co, ro))
     IN ReadOnly([op |-> "verifydh", R |-> R, co |-> co, ro |-> ro, h |-> hf, P |-> <<>>],
                 [exit |-> r.exit, missing |-> {}, mismatch |-> r.baddirs, new |-> {}], EffPats(hist, R, <<>>))

Ack == last.op.op # "none" /\ last' = NoLast /\ UNCHANGED <<disk, hist, sealed, flat, behav>>

Next ==
  \/ Ack
  \/ /\ last.op.op = "none"
     /\ \/ \E f \in FilePaths, c \in Contents : EnvAlter(f, c)
        \/ \E p \in FilePaths \cup DirPaths : EnvDelete(p)
        \/ \E d \in DirPaths : EnvMkdir(d) \/ EnvDeleteTree(d)
        \/ \E f, g \in FilePaths : EnvRename(f, g)
        \/ \E d, e \in DirPaths : EnvRenameDir(d, e)
        \/ \E R \in CmdRoots, F \in FmtChoices, P \in PatChoices, nodh, dr \in BOOLEAN : Create(R, F, nodh, dr, P)
        \/ \E R \in CmdRoots, F \in FmtChoices, S \in SFChoices : CreateSF(R, F, S)
        \/ \E R \in CmdRoots, P \in PatChoices : Verify(R, P) \/ Diff(R, P)
        \/ \E R \in CmdRoots, s \in FilePaths : VerifySF(R, s)
        \/ \E R \in CmdRoots : VerifyDHCO(R)
        \/ \E R \in CmdRoots, hf \in {""} \cup SeqSet(Fmts), co, ro \in BOOLEAN : VerifyDHOpt(R, hf, co, ro)
        \/ \E R \in CmdRoots, P \in PatChoices : VerifyDH(R, P)
        \/ \E R \in CmdRoots : Flatten(R) \/ VerifyPL(R) \/ Info(R)
        \/ \E s \in FilePaths : InfoSF(s) \/ HashCmd(s)
        \/ \E s \in FilePaths, R \in CmdRoots : InfoSFRoot(s, R)
        \/ \E R \in CmdRoots : XsdCheck(R)

Spec == Init /\ [][Next]_vars

(***************************************************************************)
(* Constraints, views, export                                              *)
(***************************************************************************)
GenBound == TotalGens <= MaxGens
OpBound  == Len(behav) <= MaxOps
CheckView == <<disk, hist, sealed, flat, last>>

\* export: print every behaviour that ends in a command (the harness keeps the maximal ones)
Export ==
  /\ OpBound
  /\ (last.op.op # "none") => PrintT(<<"BEH", ToJson(behav)>>)

(***************************************************************************)
(* Invariants: Layer P on Layer M (evaluated on observation states)        *)
(***************************************************************************)
pre == last.pre
Obs == last.op.op # "none"
Inv_C02_RecordSet   == Obs => P_C02_RecordSet(pre, hist, disk, last.op, last.ob, last.ign)
Inv_C02_Digests     == Obs => P_C02_Digests(pre, hist, disk, last.op, last.ob)
Inv_C02_SingleFiles == Obs => P_C02_SingleFiles(pre, hist, disk, last.op, last.ob)
Inv_C03_NoFalseAlarm == (Obs /\ last.op.op \in {"create", "verify", "diff"} /\ ~AmbiguousRecorded(pre, disk, last.op.R))
                           => P_C03_NoFalseAlarm(pre, disk, last.sealed, last.op, last.ob, last.ign)
Inv_C03_Altered     == Obs => P_C03_Altered(pre, disk, last.op, last.ob, last.ign)
Inv_C03_Removed     == Obs => P_C03_Removed(pre, disk, last.op, last.ob, last.ign)
Inv_C03_Added       == Obs => P_C03_Added(pre, disk, last.op, last.ob, last.ign)
Inv_C03_Quiet       == Obs => P_C03_Quiet(pre, disk, last.op, last.ob, last.ign)
Inv_C04_Judged      == Obs => P_C04_Judged(pre, hist, disk, last.op, last.ob)
Inv_C04_UnalteredOk == Obs => P_C04_UnalteredOk(pre, disk, last.op, last.ob)
Inv_C06_AppendOnly  == Obs => P_C06_AppendOnly(pre, hist)
Inv_C06_Numbered    == Obs => P_C06_Numbered(pre, hist)
Inv_C08_Partition   == Obs => P_C08_Partition(pre, hist, disk, last.op, last.ob)
Inv_C08_ChildRoot   == Obs => P_C08_ChildRoot(pre, hist, disk, last.op, last.ob)
Inv_C08_Refs        == Obs => P_C08_Refs(pre, hist, disk, last.op, last.ob)
Inv_C08_WhoWrites   == Obs => P_C08_WhoWrites(pre, hist, disk, last.op, last.ob, last.ign)
Inv_C12_Excluded    == Obs => P_C12_Excluded(pre, hist, last.op, last.ob, last.ign)
Inv_C12_Accumulate  == Obs => P_C12_Accumulate(pre, hist, last.op, last.ob)
Inv_C18_Summary     == (Obs /\ last.op.op = "flatten") => P_C18_Summary(pre, disk, last.op, last.ob, last.ob.flat)
Inv_C18_VerifyPL    == (Obs /\ last.op.op = "verifypl") => P_C18_VerifyPL(disk, last.ob.sealedDisk, last.op, last.ob, last.ob.flat, last.ign)
Inv_C19_Info        == (Obs /\ last.op.op = "info") => P_C19_Info(pre, disk, last.op, last.ob)
Inv_C19_InfoSF      == (Obs /\ last.op.op = "infosf") => P_C19_InfoSF(pre, disk, last.op, last.ob)
Inv_C14_Frame       == (Obs /\ last.op.op \notin {"create", "createsf"}) => hist = pre
Inv_C14_Scope       == Obs => P_C14_Scope(pre, hist, disk, last.op, last.ign)
Inv_C09_Identical   == (Obs /\ last.op.op = "verifydh") => P_C09_Identical(pre, disk, last.op, last.ob)
Inv_C09_Detects     == (Obs /\ last.op.op = "verifydh" /\ (last.op.h = "" => UniformFormats(pre, disk, last.op.R))) => P_C09_Detects(pre, disk, last.op, last.ob)
Inv_C17_Renamed     == (Obs /\ last.op.op = "create") => P_C17_Renamed(pre, hist, disk, last.op, last.ob, last.ign)
Inv_C17_Altered     == (Obs /\ last.op.op = "verify") => P_C17_Altered(pre, disk, last.op, last.ob, last.ign)
Inv_NoInternal      == ~last.ob.internal
\* C04 as an action property: the first recorded digest of a path and format never changes
Act_C04_FirstRefStable ==
  [][\A h \in DOMAIN hist : \A i \in DOMAIN hist[h] : \A rp \in DOMAIN hist[h][i].files :
       \A f \in DOMAIN hist[h][i].files[rp].ents :
          FirstDig(hist'[h], rp, f) = FirstDig(hist[h], rp, f)]_vars
Act_C06_AppendOnly == [][P_C06_AppendOnly(hist, hist')]_vars
=============================================================================
