SPECIFICATION Spec
CONSTANTS
 Fmts <- c_Fmts
 FmtSeqs <- c_FmtSeqs
 MaxRecs = 2
 MaxRefs = 2
 MaxAuthors = 2
 MaxPats = 2
CONSTRAINT Export
