---- MODULE MC_DirHash ----
EXTENDS MhlDirHash
c_Fmts == <<"md5">>
c_PatNames == <<>>
c_FilePaths == {<<"x">>, <<"y">>, <<"d", "x">>, <<"d", "y">>, <<"d", "e", "x">>}
c_DirPaths == {<<"d">>, <<"e">>, <<"d", "e">>}
c_Contents == {"c1", "EMPTY"}
====
