--------------------------- MODULE MhlCommitTrace ---------------------------
(***************************************************************************)
(* Conformance of real create runs with MhlCommit:                         *)
(*  - the recorded file-system calls of an uninterrupted run must be the   *)
(*    protocol's event sequence (kind "protocol");                         *)
(*  - for a run killed at its k-th call (none / partial / full) the        *)
(*    abstract file system predicted by folding the specification's Apply  *)
(*    over the recorded prefix must equal the one observed, the loader     *)
(*    outcome predicted by Load must equal what the next command does, and *)
(*    the C15 predicates must hold on the observed state (kind "crash").   *)
(***************************************************************************)
EXTENDS MhlCommit, Json, IOUtils

VARIABLE l
TraceLog == ndJsonDeserialize(IOEnv.TRACE_FILE)

PriorOf(e, h) == (CHOOSE i \in DOMAIN e.hists : e.hists[i].h = h)
HRec(e, h)    == e.hists[PriorOf(e, h)]
HIds(e)       == {e.hists[i].h : i \in DOMAIN e.hists}

\* expected shape of one history's events with runs of writes collapsed
Shape(h, prior, atomic) ==
  LET M == IF atomic THEN "tmpman" ELSE "man"
      C == IF atomic THEN "tmpchain" ELSE "chain"
  IN (IF prior = 0 THEN <<Ev("mkdir", h, "dir")>> ELSE <<>>)
     \o <<Ev("open", h, M), Ev("write", h, M), Ev("close", h, M)>> \o (IF atomic THEN <<Ev("replace", h, "man")>> ELSE <<>>)
     \o <<Ev("open", h, C), Ev("write", h, C), Ev("close", h, C)>> \o (IF atomic THEN <<Ev("replace", h, "chain")>> ELSE <<>>)
Collapse(evs) ==
  LET RECURSIVE G(_, _)
      G(i, acc) == IF i > Len(evs) THEN acc
                   ELSE IF evs[i].k = "write" /\ Len(acc) > 0 /\ acc[Len(acc)] = evs[i] THEN G(i + 1, acc)
                   ELSE G(i + 1, Append(acc, evs[i]))
  IN G(1, <<>>)
EvOf(x) == Ev(x.k, x.h, x.f)
P_Protocol(e) ==
  LET evs == [i \in DOMAIN e.events |-> EvOf(e.events[i])]
      order == e.order                                    \* histories in the order they were committed
      RECURSIVE S(_)
      S(i) == IF i > Len(order) THEN <<>> ELSE Shape(order[i], HRec(e, order[i]).prior, e.atomic) \o S(i + 1)
  IN Collapse(SelectSeq(evs, LAMBDA x : x.k # "flush")) = S(1)
\* children before parents: a history's events come after those of every history below it
P_ChildFirst(e) ==
  \A i, j \in DOMAIN e.order : (i < j) => ~(HRec(e, e.order[i]).depth < HRec(e, e.order[j]).depth
                                             /\ HRec(e, e.order[j]).below = e.order[i])

\* abstract file system of history h after the first k events, the (k+1)-th applied as `how`
InitH(prior) ==
  [folder |-> prior > 0, man |-> Absent, tmpman |-> Absent,
   chain |-> IF prior > 0 THEN Done(prior + 2) ELSE Absent, chainnew |-> FALSE, tmpchain |-> Absent]
Predict(e, h) ==
  LET hr == HRec(e, h)
      tot == [man |-> hr.wman, chain |-> hr.wchain]
      RECURSIVE G(_, _)
      G(i, fs0) == IF i > e.k + 1 \/ i > Len(e.events) THEN fs0
                   ELSE LET ev == EvOf(e.events[i])
                            how == IF i <= e.k THEN "full" ELSE e.mode
                        IN G(i + 1, IF ev.h # h THEN fs0 ELSE IF e.buffered THEN ApplyB(fs0, ev, how, tot) ELSE ApplyT(fs0, ev, how, tot))
  IN G(1, InitH(hr.prior))
ClassesOf(f) == [folder |-> f.folder, man |-> Class(f.man), tmpman |-> Class(f.tmpman),
                 chain |-> Class(f.chain), tmpchain |-> Class(f.tmpchain)]
ObservedClasses(o) == [folder |-> o.folder, man |-> o.man, tmpman |-> o.tmpman, chain |-> o.chain, tmpchain |-> o.tmpchain]

ExitOf(r) == CASE r = "none" -> 30 [] r = "nochain" -> 32 [] r = "internal" -> 1 [] r = "missing" -> 33
               [] r = "modified" -> 31 [] OTHER -> 0
\* the loader visits the root first, then the nested histories top-down; first failure wins
PredictLoadExit(e) ==
  LET order == e.loadorder
      RECURSIVE G(_)
      G(i) == IF i > Len(order) THEN 0
              ELSE LET h == order[i]
                       r == LoadP(HRec(e, h).prior, Predict(e, h))
                   IN IF r = "none" THEN (IF i = 1 THEN 30 ELSE G(i + 1))
                      ELSE IF r = "ok" THEN G(i + 1) ELSE ExitOf(r)
  IN G(1)

Verdict(e) ==
  IF e.kind = "protocol"
  THEN [tid |-> e.tid, i |-> e.i, op |-> "create", exit |-> e.exit, kind |-> "protocol",
        M_protocol |-> P_Protocol(e), P_C08_ChildFirst |-> P_ChildFirst(e), A_nested |-> Len(e.order) > 1]
  ELSE
  LET hs == HIds(e)
      ob(h) == HRec(e, h).obs
  IN [tid |-> e.tid, i |-> e.i, op |-> "crash", exit |-> e.after.info, kind |-> "crash",
      M_state |-> \A h \in hs : ClassesOf(Predict(e, h)) = ObservedClasses(ob(h)),
      M_load  |-> PredictLoadExit(e) = e.after.info,
      P_C15_OldIntact |-> \A h \in hs : ob(h).old_intact,
      P_C15_ChainLists |-> \A h \in hs : HRec(e, h).prior > 0 => (ob(h).chain = "full" /\ ob(h).chain_lists_old),
      P_C15_AllOrNothing |-> \A h \in hs : ob(h).man \in {"absent", "full"} /\ (ob(h).chain_lists_new => ob(h).man = "full"),
      \* the interrupted generation is present for the loader exactly when the chain lists it - right after the kill and
      \* after the next create as well (a manifest that never made it into the chain is not a generation)
      P_C15_Listed |-> e.after.listed_ok,
      P_C15_Loadable |-> /\ e.after.info \notin {1, 31, 33} /\ e.after.verify \notin {1, 31, 33} /\ e.after.create \notin {1, 31, 33}
                         /\ (HRec(e, e.loadorder[1]).prior > 0 => (e.after.info = 0 /\ e.after.verify = 0 /\ e.after.create = 0)),
      A_midwrite |-> e.mode = "partial"]

\* (the model's own variables are not used by trace validation; every line carries its own state)
TInit == l = 1 /\ fs = <<>> /\ pos = 0 /\ crashed = FALSE
TNext == /\ l <= Len(TraceLog)
         /\ PrintT(<<"V", ToJson(Verdict(TraceLog[l]))>>)
         /\ l' = l + 1
         /\ UNCHANGED <<fs, pos, crashed>>
TSpec == TInit /\ [][TNext]_<<l, fs, pos, crashed>>
=============================================================================
