------------------------------ MODULE MhlCommit ------------------------------
(***************************************************************************)
(* The write protocol of `create` at the grain of the writers' own file    *)
(* system calls (generator.commit -> history.write_new_generation ->       *)
(* hashlist_xml_parser.write_hash_list -> chain_xml_parser.write_chain),   *)
(* process kill at any point, and what the loader (history.load_from_path) *)
(* makes of the result.  C15.                                              *)
(*                                                                         *)
(* Histories are committed children first.  For one history:               *)
(*   [mkdir ascmhl]  open M, write M x W, close M, [replace M]             *)
(*                   open C, write C x (Prior + 3), close C, [replace C]   *)
(* Atomic = TRUE : M and C are temporary names, renamed into place         *)
(* Atomic = FALSE: the manifest is written under its final name and the    *)
(*                 chain file is truncated and rewritten in place          *)
(***************************************************************************)
EXTENDS Integers, Sequences, FiniteSets, TLC

CONSTANTS Hist,      \* sequence of history ids in commit order (children before parents)
          Prior,     \* [history id -> number of generations committed before the run]
          W,         \* number of write calls for a manifest
          Atomic     \* BOOLEAN

Ev(k, h, f) == [k |-> k, h |-> h, f |-> f]
MName == IF Atomic THEN "tmpman" ELSE "man"
CName == IF Atomic THEN "tmpchain" ELSE "chain"
ChainWrites(h) == Prior[h] + 3           \* header, old entries, new entry, footer
Rep(n, e) == [i \in 1..n |-> e]
ProtoOf(h) ==
  (IF Prior[h] = 0 THEN <<Ev("mkdir", h, "dir")>> ELSE <<>>)
  \o <<Ev("open", h, MName)>> \o Rep(W, Ev("write", h, MName)) \o <<Ev("close", h, MName)>>
  \o (IF Atomic THEN <<Ev("replace", h, "man")>> ELSE <<>>)
  \o <<Ev("open", h, CName)>> \o Rep(ChainWrites(h), Ev("write", h, CName)) \o <<Ev("close", h, CName)>>
  \o (IF Atomic THEN <<Ev("replace", h, "chain")>> ELSE <<>>)
Protocol == LET RECURSIVE P(_) P(i) == IF i > Len(Hist) THEN <<>> ELSE ProtoOf(Hist[i]) \o P(i + 1) IN P(1)

(***************************************************************************)
(* Abstract file system of one history                                     *)
(* a file is "absent" or [len, total, part]: complete writes so far, the   *)
(* number needed, whether a partial write sits at the end                  *)
(***************************************************************************)
Absent == [len |-> -1, total |-> 0, part |-> FALSE]
Fresh(total) == [len |-> 0, total |-> total, part |-> FALSE]
Done(total)  == [len |-> total, total |-> total, part |-> FALSE]
Class(f) == IF f.len = -1 THEN "absent"
            ELSE IF f.len = 0 /\ ~f.part THEN "empty"
            ELSE IF f.len = f.total /\ ~f.part THEN "full" ELSE "partial"

InitFS(h) ==
  [folder   |-> Prior[h] > 0,
   man      |-> Absent,                                  \* the new manifest under its final name
   tmpman   |-> Absent,
   chain    |-> IF Prior[h] > 0 THEN Done(Prior[h] + 2) ELSE Absent,   \* the old chain: header, entries, footer
   chainnew |-> FALSE,                                   \* the chain under its final name is the new one
   tmpchain |-> Absent]

\* tot: [man, chain] number of write calls each file needs
\* how: "full" (the call completed), "partial" (a write was cut short), "none" (did not happen)
ApplyT(fs, ev, how, tot) ==
  IF how = "none" THEN fs
  ELSE IF ev.k = "mkdir" THEN (IF how = "full" THEN [fs EXCEPT !.folder = TRUE] ELSE fs)
  ELSE IF ev.k = "open" THEN
       (IF how # "full" THEN fs
        ELSE IF ev.f = "chain" THEN [fs EXCEPT !.chain = Fresh(tot.chain), !.chainnew = TRUE]
        ELSE [fs EXCEPT ![ev.f] = Fresh(IF ev.f \in {"man", "tmpman"} THEN tot.man ELSE tot.chain)])
  ELSE IF ev.k = "write" THEN
       (IF how = "full" THEN [fs EXCEPT ![ev.f].len = @ + 1] ELSE [fs EXCEPT ![ev.f].part = TRUE])
  ELSE IF ev.k = "close" THEN fs
  ELSE IF ev.k = "replace" THEN
       (IF how # "full" THEN fs
        ELSE IF ev.f = "man" THEN [fs EXCEPT !.man = fs.tmpman, !.tmpman = Absent]
        ELSE [fs EXCEPT !.chain = fs.tmpchain, !.chainnew = TRUE, !.tmpchain = Absent])
  ELSE fs

Apply(fs, ev, how) == ApplyT(fs, ev, how, [man |-> W, chain |-> ChainWrites(ev.h)])
\* the same with a user-space buffer in front of the file (io.BufferedWriter): write calls only fill the
\* buffer; its content reaches the file at flush / close and is lost when the process dies before
ApplyB(fs, ev, how, tot) ==
  IF ev.k = "write" THEN fs
  ELSE IF ev.k \in {"flush", "close"} THEN
       (IF how = "none" \/ fs[ev.f].len = -1 \/ fs[ev.f].len = fs[ev.f].total THEN fs
        ELSE IF how = "partial" THEN [fs EXCEPT ![ev.f].part = TRUE]
        ELSE [fs EXCEPT ![ev.f].len = fs[ev.f].total, ![ev.f].part = FALSE])
  ELSE ApplyT(fs, ev, how, tot)

(***************************************************************************)
(* The loader on one history (history.load_from_path)                      *)
(***************************************************************************)
\* complete <hashlist> entries readable from the chain under its final name
ListedP(prior, fs) == IF ~fs.chainnew THEN prior
                      ELSE IF fs.chain.len <= 0 THEN 0
                      ELSE IF fs.chain.len - 1 > prior + 1 THEN prior + 1 ELSE fs.chain.len - 1
LoadP(prior, fs) ==
  IF ~fs.folder THEN "none"
  ELSE IF Class(fs.chain) = "absent" THEN "nochain"                         \* exit 32
  ELSE IF Class(fs.chain) # "full" THEN "internal"                           \* XMLSyntaxError
  ELSE IF ListedP(prior, fs) = prior + 1 /\ Class(fs.man) = "absent" THEN "missing"   \* exit 33
  ELSE IF ListedP(prior, fs) = prior + 1 /\ Class(fs.man) # "full" THEN "modified"    \* exit 31
  ELSE IF Class(fs.man) \in {"empty", "partial"} THEN "internal"             \* every *.mhl is parsed
  ELSE "ok"
Listed(h, fs) == ListedP(Prior[h], fs)
Load(h, fs)   == LoadP(Prior[h], fs)

(***************************************************************************)
(* State machine: run the protocol, crash anywhere                         *)
(***************************************************************************)
VARIABLES fs, pos, crashed
vars == <<fs, pos, crashed>>
HSet == {Hist[i] : i \in DOMAIN Hist}
Init == fs = [h \in HSet |-> InitFS(h)] /\ pos = 1 /\ crashed = FALSE
Step ==
  /\ ~crashed /\ pos <= Len(Protocol)
  /\ LET ev == Protocol[pos] IN fs' = [fs EXCEPT ![ev.h] = Apply(fs[ev.h], ev, "full")]
  /\ pos' = pos + 1 /\ UNCHANGED crashed
Crash ==       \* the kill hits before, in the middle of, or right after the next call
  /\ ~crashed /\ pos <= Len(Protocol)
  /\ \E how \in {"none", "partial", "full"} :
       LET ev == Protocol[pos] IN fs' = [fs EXCEPT ![ev.h] = Apply(fs[ev.h], ev, how)]
  /\ crashed' = TRUE /\ UNCHANGED pos
Next == Step \/ Crash
Spec == Init /\ [][Next]_vars

(***************************************************************************)
(* C15 on an abstract file system                                          *)
(***************************************************************************)
P_ChainLists(h, f)   == Prior[h] > 0 => (Class(f.chain) = "full" /\ Listed(h, f) >= Prior[h])
P_Loadable(h, f)     == Load(h, f) # "internal" /\ (Prior[h] > 0 => Load(h, f) = "ok")
P_AllOrNothing(h, f) == Class(f.man) \in {"absent", "full"}
                        /\ (Listed(h, f) = Prior[h] + 1 => Class(f.man) = "full")
Inv_ChainLists   == crashed => \A h \in HSet : P_ChainLists(h, fs[h])
Inv_Loadable     == crashed => \A h \in HSet : P_Loadable(h, fs[h])
Inv_AllOrNothing == crashed => \A h \in HSet : P_AllOrNothing(h, fs[h])
\* children are committed completely before their parent starts
Inv_ChildFirst ==
  \A i, j \in DOMAIN Hist : (i < j /\ (Class(fs[Hist[j]].man) # "absent" \/ Class(fs[Hist[j]].tmpman) # "absent"))
      => (Class(fs[Hist[i]].man) = "full" /\ fs[Hist[i]].chainnew /\ Class(fs[Hist[i]].chain) = "full")
Inv_Completes == (pos > Len(Protocol) /\ ~crashed) => \A h \in HSet : Load(h, fs[h]) = "ok" /\ Listed(h, fs[h]) = Prior[h] + 1
=============================================================================
