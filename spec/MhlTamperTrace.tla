--------------------------- MODULE MhlTamperTrace ---------------------------
(* every line: one history-reading command run on a tampered history       *)
EXTENDS MhlTamper, IOUtils

VARIABLE l
TraceLog == ndJsonDeserialize(IOEnv.TRACE_FILE)
StOf(e) == [h \in {e.st[k].h : k \in DOMAIN e.st} |->
              LET r == e.st[CHOOSE k \in DOMAIN e.st : e.st[k].h = h] IN [chain |-> r.chain, mans |-> r.mans]]
Verdict(e) ==
  LET s == StOf(e)
      expected == LoadCode(s, e.R)
  IN [tid |-> e.tid, i |-> e.i, op |-> e.cmd, exit |-> e.exit, kind |-> "tamper", expected |-> expected,
      \* the statement fixes the code per kind of fault, not which of several faults is met first
      P_C05_Refuse |-> IF Faulty(s, e.R)
                       THEN e.exit \in {LoadOne(s[h]) : h \in {x \in DOMAIN s : IsPrefixP(e.R, x) /\ s[x] # Ok[x]}}
                       ELSE e.exit \notin {31, 32, 33},
      M_order |-> e.exit = expected \/ ~Faulty(s, e.R),
      P_C05_NoWrite |-> Faulty(s, e.R) => (e.delta = <<>> /\ e.writes = <<>>),
      A_faulty |-> Faulty(s, e.R)]
TInit == l = 1 /\ st = <<>> /\ nfaults = 0
TNext == /\ l <= Len(TraceLog) /\ PrintT(<<"V", ToJson(Verdict(TraceLog[l]))>>) /\ l' = l + 1 /\ UNCHANGED <<st, nfaults>>
TSpec == TInit /\ [][TNext]_<<l, st, nfaults>>
=============================================================================
