------------------------------ MODULE MhlDirHash ------------------------------
(***************************************************************************)
(* The compositional directory-hash definition (hasher.DirectoryHashContext*)
(* and Hasher.hash_of_hash_list) on Merkle terms over an abstract,         *)
(* injective hash function.                                                *)
(*                                                                         *)
(*   digest of a file with content c        Hf(c)     == <<"f", c>>        *)
(*   digest of a sorted list of digests     Hl(bag)   == <<"l", bag>>      *)
(*   digest of name bytes + digest bytes    Hn(n, d)  == <<"n", n, d>>     *)
(*                                                                         *)
(* Sorting the digest strings before concatenation makes the input a       *)
(* function of the *multiset* of child digests (fixed-width digests parse  *)
(* uniquely), hence bags.  The module checks, over all trees of a small    *)
(* universe and all single mutations, the sensitivity relations of C07 and *)
(* the equivalence with the snapshot signatures SSig / CSig that the core  *)
(* model (MhlHistory) uses instead of carrying Merkle terms.               *)
(***************************************************************************)
EXTENDS MhlHistory

CONSTANTS FilePaths, DirPaths, Contents

VARIABLES t1, t2, mut      \* a tree, the tree after one mutation, the kind of mutation

Hl(bag)  == <<"l", bag>>
NoKids   == <<>>
Hf(c)    == IF c = "EMPTY" THEN Hl(NoKids) ELSE <<"f", c>>    \* the empty file is the empty input
Hn(n, d) == <<"n", n, d>>
BagOf(S, T(_)) == LET TS == {T(k) : k \in S} IN [x \in TS |-> Cardinality({k \in S : T(k) = x})]
Children(dk, d) == {p \in DOMAIN dk : Len(p) = Len(d) + 1 /\ Below(d, p)}

RECURSIVE Content(_, _), Structure(_, _)
Content(dk, d) ==
  Hl(BagOf(Children(dk, d), LAMBDA k : IF dk[k] = "DIR" THEN Content(dk, k) ELSE Hf(dk[k])))
Structure(dk, d) ==
  Hl(BagOf(Children(dk, d), LAMBDA k : Hn(k[Len(k)], IF dk[k] = "DIR" THEN Structure(dk, k) ELSE Hf(dk[k]))))

(***************************************************************************)
(* All well-formed trees over the universe                                 *)
(***************************************************************************)
WellFormed(dk) == \A p \in DOMAIN dk : Len(p) = 1 \/ (Parent(p) \in DOMAIN dk /\ dk[Parent(p)] = "DIR")
AllTrees ==
  {dk \in UNION {[S -> Contents \cup {"DIR"}] : S \in SUBSET (FilePaths \cup DirPaths)} :
     /\ WellFormed(dk)
     /\ \A p \in DOMAIN dk : (p \in DirPaths) <=> (dk[p] = "DIR")}

(***************************************************************************)
(* Single mutations                                                        *)
(***************************************************************************)
Edit(dk, f, c)   == [dk EXCEPT ![f] = c]
DropTree(dk, p)    == [q \in {x \in DOMAIN dk : ~BelowEq(p, x)} |-> dk[q]]
PutEntry(dk, p, v)    == [q \in DOMAIN dk \cup {p} |-> IF q = p THEN v ELSE dk[q]]
\* rename entry p to the sibling name n (files and whole directories)
Moved(p, n, q)   == SubSeq(p, 1, Len(p) - 1) \o <<n>> \o SubSeq(q, Len(p) + 1, Len(q))
RenameTo(dk, p, n) ==
  [q \in {IF BelowEq(p, x) THEN Moved(p, n, x) ELSE x : x \in DOMAIN dk} |->
      IF BelowEq(Moved(p, n, p), q) /\ \E x \in DOMAIN dk : BelowEq(p, x) /\ Moved(p, n, x) = q
      THEN dk[CHOOSE x \in DOMAIN dk : BelowEq(p, x) /\ Moved(p, n, x) = q] ELSE dk[q]]
Names == {p[Len(p)] : p \in FilePaths \cup DirPaths}

Init == t1 \in AllTrees /\ t2 = t1 /\ mut = [k |-> "none"]
\* an arbitrary second tree (for the equivalence with the snapshot signatures)
PairUp == mut.k = "none" /\ t2' \in AllTrees /\ mut' = [k |-> "pair"] /\ UNCHANGED t1
Mutate ==
  /\ mut.k = "none"
  /\ \/ \E f \in DOMAIN t1, c \in Contents :
          t1[f] # "DIR" /\ t1[f] # c /\ t2' = Edit(t1, f, c) /\ mut' = [k |-> "edit", p |-> f]
     \/ \E p \in DOMAIN t1 : t2' = DropTree(t1, p) /\ mut' = [k |-> "remove", p |-> p]
     \/ \E p \in (FilePaths \cup DirPaths) \ DOMAIN t1, c \in Contents :
          /\ (Len(p) = 1 \/ (Parent(p) \in DOMAIN t1 /\ t1[Parent(p)] = "DIR"))
          /\ t2' = PutEntry(t1, p, IF p \in DirPaths THEN "DIR" ELSE c) /\ mut' = [k |-> "add", p |-> p]
     \/ \E p \in DOMAIN t1, n \in Names :
          /\ n # p[Len(p)] /\ Parent(p) \o <<n>> \notin DOMAIN t1
          /\ t2' = RenameTo(t1, p, n) /\ mut' = [k |-> "rename", p |-> p, n |-> n]
  /\ UNCHANGED t1
Next == Mutate \/ PairUp
Spec == Init /\ [][Next]_<<t1, t2, mut>>

(***************************************************************************)
(* C07 on terms                                                            *)
(***************************************************************************)
Anc(p) == {SubSeq(p, 1, i) : i \in 0..(Len(p) - 1)}      \* proper ancestors incl. Root
\* a content edit changes content and structure hash of every ancestor directory, no other
Inv_Edit ==
  mut.k = "edit" =>
    \A d \in {Root} \cup {x \in DOMAIN t1 : t1[x] = "DIR"} :
      IF d \in Anc(mut.p)
      THEN Content(t1, d) # Content(t2, d) /\ Structure(t1, d) # Structure(t2, d)
      ELSE Content(t1, d) = Content(t2, d) /\ Structure(t1, d) = Structure(t2, d)
\* renaming in place keeps every content hash and changes the structure hash of every ancestor
Inv_Rename ==
  mut.k = "rename" =>
    /\ \A d \in Anc(mut.p) : Content(t1, d) = Content(t2, d) /\ Structure(t1, d) # Structure(t2, d)
    /\ (t1[mut.p] = "DIR" =>
          LET q == Parent(mut.p) \o <<mut.n>>
          IN Content(t1, mut.p) = Content(t2, q) /\ Structure(t1, mut.p) = Structure(t2, q))
\* adding or removing an entry changes both hashes of every ancestor
Inv_AddRemove ==
  mut.k \in {"add", "remove"} =>
    \A d \in Anc(mut.p) : Structure(t1, d) # Structure(t2, d) /\ Content(t1, d) # Content(t2, d)
\* an empty directory hashes as the empty input
Inv_Empty ==
  \A d \in {x \in DOMAIN t1 : t1[x] = "DIR"} : Children(t1, d) = {} => Content(t1, d) = Hl(NoKids) /\ Structure(t1, d) = Hl(NoKids)
\* equivalence with the snapshot signatures of the core model (no ignore patterns here)
Inv_SigEquiv ==
  \A d1 \in {Root} \cup {x \in DOMAIN t1 : t1[x] = "DIR"} :
    \A d2 \in {Root} \cup {x \in DOMAIN t2 : t2[x] = "DIR"} :
      /\ (Structure(t1, d1) = Structure(t2, d2)) <=> (SSig(t1, d1, Root, <<>>) = SSig(t2, d2, Root, <<>>))
      /\ (Content(t1, d1) = Content(t2, d2)) <=> (CSig(t1, d1, Root, <<>>) = CSig(t2, d2, Root, <<>>))
=============================================================================
