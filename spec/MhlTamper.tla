------------------------------ MODULE MhlTamper ------------------------------
(***************************************************************************)
(* C05.  Committed histories, faults injected into them (a manifest's      *)
(* bytes changed, a manifest removed, a chain file removed), and the       *)
(* refusal every history-reading command must answer with.                 *)
(*                                                                         *)
(* Loader order (history.load_from_path, _find_and_load_child_histories):  *)
(* the command root first - chain present?, then each chain entry in order *)
(* (manifest present?, digest equal?) - then the nested histories below    *)
(* it, depth first, siblings in sorted order.  The first failing check     *)
(* decides: 32 chain missing, 33 manifest missing, 31 manifest modified.   *)
(***************************************************************************)
EXTENDS Integers, Sequences, FiniteSets, TLC, Json

CONSTANTS Order,      \* all histories in loader order (root first, depth first, sorted siblings); each a path tuple
          NGens,      \* [history -> number of generations]
          MaxFaults

VARIABLES st, nfaults
HSet == {Order[i] : i \in DOMAIN Order}
Ok == [h \in HSet |-> [chain |-> "ok", mans |-> [i \in 1..NGens[h] |-> "ok"]]]

Init == st = Ok /\ nfaults = 0
EditManifest(h, i)   == st[h].mans[i] = "ok" /\ st' = [st EXCEPT ![h].mans[i] = "edited"]
RemoveManifest(h, i) == st[h].mans[i] # "missing" /\ st' = [st EXCEPT ![h].mans[i] = "missing"]
RemoveChain(h)       == st[h].chain = "ok" /\ st' = [st EXCEPT ![h].chain = "missing"]
\* the whole content of an ascmhl folder removed at once (chain file and every manifest): the folder is still there,
\* so this is "the chain file of an existing ascmhl folder is missing" (32), not "no history"
EmptyFolder(h)       == st[h] = Ok[h] /\ st' = [st EXCEPT ![h] = [chain |-> "missing", mans |-> [i \in 1..NGens[h] |-> "missing"]]]
Next == /\ nfaults < MaxFaults /\ nfaults' = nfaults + 1
        /\ \E h \in HSet : RemoveChain(h) \/ EmptyFolder(h) \/ \E i \in 1..NGens[h] : EditManifest(h, i) \/ RemoveManifest(h, i)
Spec == Init /\ [][Next]_<<st, nfaults>>

IsPrefixP(a, b) == Len(a) <= Len(b) /\ SubSeq(b, 1, Len(a)) = a
\* result of loading one history
LoadOne(s) ==
  IF s.chain = "missing" THEN 32
  ELSE LET bad == {i \in DOMAIN s.mans : s.mans[i] # "ok"}
       IN IF bad = {} THEN 0
          ELSE LET i == CHOOSE x \in bad : \A y \in bad : x <= y
               IN IF s.mans[i] = "missing" THEN 33 ELSE 31
\* exit code of a history-reading command started at root R: histories at or below R, in loader order
LoadCode(s, R) ==
  LET RECURSIVE G(_)
      G(k) == IF k > Len(Order) THEN 0
              ELSE IF IsPrefixP(R, Order[k]) /\ LoadOne(s[Order[k]]) # 0 THEN LoadOne(s[Order[k]]) ELSE G(k + 1)
  IN G(1)
Faulty(s, R) == \E h \in HSet : IsPrefixP(R, h) /\ s[h] # Ok[h]

\* every fault in scope is refused with a dedicated code; nothing else is
Inv_Refuses == \A R \in HSet : Faulty(st, R) <=> (LoadCode(st, R) \in {31, 32, 33})
Inv_RootFirst == \A R \in HSet : (st[R].chain = "missing") => LoadCode(st, R) = 32
\* export every fault state for the harness
Export == (nfaults > 0) => PrintT(<<"BEH", ToJson([st |-> [k \in DOMAIN Order |-> [h |-> Order[k], chain |-> st[Order[k]].chain, mans |-> st[Order[k]].mans]]])>>)
=============================================================================
