SPECIFICATION Spec
CONSTANTS
 Order <- c_Order
 NGens <- c_NGens
 MaxFaults = 2
INVARIANT Inv_Refuses
INVARIANT Inv_RootFirst
CONSTRAINT Export
