------------------------------ MODULE MhlHistory ------------------------------
(***************************************************************************)
(* Core specification of ascmitc/mhl: media tree, nested generation        *)
(* histories, and the commands create / create -sf / verify / diff /       *)
(* verify -dh / flatten / info.                                            *)
(*                                                                         *)
(* Layer M  (XResult operators): the mechanism, transcribed from           *)
(*          commands.py / generator.py / history.py (see DESIGN.md App. A).*)
(* Layer P  (P_* operators): the listed properties, stated on              *)
(*          (pre-state, operation, observation, post-state) and nothing    *)
(*          else.                                                          *)
(*                                                                         *)
(* Everything is written as pure operators over explicit state arguments   *)
(* so that the model (MhlHistoryMC) and the trace validator                *)
(* (MhlHistoryTrace, which binds the arguments to states *observed* on the *)
(* real code) share one definition of every rule.                          *)
(***************************************************************************)
EXTENDS Integers, Sequences, FiniteSets, TLC, SequencesExt, FiniteSetsExt

CONSTANTS
  Fmts,       \* sequence of hash format names in alphabetical order (= manifest element order)
  PatNames    \* [pattern string -> set of names]: pattern matches a path iff a component is in the set

Defaults == <<".DS_Store", "ascmhl", "ascmhl/">>
NoPath   == <<"-">>
Root     == <<>>

(***************************************************************************)
(* Paths are tuples of names.  A disk is a function from the existing      *)
(* paths (Root excluded, always a directory) to a content id or "DIR".     *)
(***************************************************************************)
InSeq(s, x)   == \E i \in DOMAIN s : s[i] = x
SeqSet(s)     == {s[i] : i \in DOMAIN s}
Below(a, b)   == Len(a) < Len(b) /\ SubSeq(b, 1, Len(a)) = a          \* b strictly below a
BelowEq(a, b) == Len(a) <= Len(b) /\ SubSeq(b, 1, Len(a)) = a
Rel(h, p)     == SubSeq(p, Len(h) + 1, Len(p))
Parent(p)     == SubSeq(p, 1, Len(p) - 1)
Dedup(s)      == LET RECURSIVE D(_, _)
                     D(i, acc) == IF i > Len(s) THEN acc
                                  ELSE D(i + 1, IF InSeq(acc, s[i]) THEN acc ELSE Append(acc, s[i]))
                 IN D(1, <<>>)
IsFile(dk, p) == p \in DOMAIN dk /\ dk[p] # "DIR"
IsDir(dk, p)  == p = Root \/ (p \in DOMAIN dk /\ dk[p] = "DIR")
FmtSeq(F)     == SelectSeq(Fmts, LAMBDA f : f \in F)                  \* sorted(hash_formats)

(***************************************************************************)
(* Ignore patterns.  Abstract semantics: a pattern matches a path          *)
(* (relative to the command root) iff one of its components is one of the  *)
(* pattern's names - gitwildmatch base-name / glob patterns match at any   *)
(* depth and exclude everything below a matched directory.                 *)
(***************************************************************************)
(* Negation ("!name"): a pattern whose name set contains the marker "!neg"   *)
(* re-includes what it matches.  As in gitwildmatch the last pattern of the  *)
(* list that matches a path decides, so the order of the list matters.       *)
PatSet(p)        == IF p \in DOMAIN PatNames THEN PatNames[p] ELSE {}
NegMark          == "!neg"
Hits(R, p, pats) == {i \in DOMAIN pats : \E j \in (Len(R) + 1)..Len(p) : p[j] \in PatSet(pats[i]) \ {NegMark}}
Ign(R, p, pats)  == LET H == Hits(R, p, pats) IN H # {} /\ NegMark \notin PatSet(pats[Max(H)])

(***************************************************************************)
(* Histories.  hs : [history root path -> Seq(Generation)].                *)
(* Generation == [n, files : [relpath -> [ents : [fmt -> [c, a]], prev]],  *)
(*                dirs : [relpath -> [fmts, prev]], root : [has, fmts],    *)
(*                pats : Seq(pattern), refs : SUBSET [h, n], proc, snap]   *)
(***************************************************************************)
HRoots(hs)       == {h \in DOMAIN hs : Len(hs[h]) > 0}
GensOf(hs, h)    == IF h \in DOMAIN hs THEN hs[h] ELSE <<>>
LatestN(gens)    == IF Len(gens) = 0 THEN 0 ELSE gens[Len(gens)].n
LatestPats(gens) == IF Len(gens) > 0 /\ Len(gens[Len(gens)].pats) > 0
                    THEN gens[Len(gens)].pats ELSE Defaults
\* histories the command rooted at R loads: R itself and every history below it whose
\* directory exists (history._find_and_load_child_histories; ignore patterns play no part)
Visible(hs, dk, R) == {R} \cup {h \in HRoots(hs) : Below(R, h) /\ IsDir(dk, h)}
\* total: a path that lies below no history at all is owned by "nobody" (a tuple no history root equals)
Deepest(S)       == IF S = {} THEN <<"?nobody">> ELSE CHOOSE h \in S : \A k \in S : Len(k) <= Len(h)
\* history.find_history_for_path: a directory that is itself a history root belongs to that
\* history (as its "." record), a file to the deepest root above it
OwnerIn(H, R, p, isdir) ==
  Deepest({h \in H : IF isdir THEN BelowEq(h, p) ELSE Below(h, p)})
ParentHist(H, h) == Deepest({k \in H : Below(k, h)})

(***************************************************************************)
(* Per-file lookups (history.py l.102-174).  Records are found under their *)
(* path or their previous path (hashlist.append_hash indexes both).        *)
(***************************************************************************)
RecOf(g, rp) ==
  IF rp \in DOMAIN g.files THEN <<g.files[rp]>>
  ELSE LET S == {q \in DOMAIN g.files : g.files[q].prev = rp}
       IN  IF S = {} THEN <<>> ELSE <<g.files[CHOOSE q \in S : TRUE]>>
EntFmts(rec)  == SelectSeq(Fmts, LAMBDA f : f \in DOMAIN rec.ents)

NoEnt == [f |-> "none", c |-> "none", a |-> "none"]
\* find_original_hash_entry_for_path: first entry with action original, generations in order
FindOriginal(gens, rp) ==
  LET RECURSIVE G(_)
      G(i) == IF i > Len(gens) THEN NoEnt
              ELSE LET r == RecOf(gens[i], rp)
                       o == IF r = <<>> THEN <<>>
                            ELSE SelectSeq(EntFmts(r[1]), LAMBDA f : r[1].ents[f].a = "original")
                   IN  IF o = <<>> THEN G(i + 1)
                       ELSE [f |-> o[1], c |-> r[1].ents[o[1]].c, a |-> "original"]
  IN G(1)
\* find_first_hash_entry_for_path(path, fmt)
FindFirst(gens, rp, f) ==
  LET RECURSIVE G(_)
      G(i) == IF i > Len(gens) THEN NoEnt
              ELSE LET r == RecOf(gens[i], rp)
                   IN  IF r # <<>> /\ f \in DOMAIN r[1].ents
                       THEN [f |-> f, c |-> r[1].ents[f].c, a |-> r[1].ents[f].a]
                       ELSE G(i + 1)
  IN G(1)
\* find_first_hash_entry_for_path(path) without format: first entry of the first record
FindFirstAny(gens, rp) ==
  LET RECURSIVE G(_)
      G(i) == IF i > Len(gens) THEN NoEnt
              ELSE LET r == RecOf(gens[i], rp)
                   IN  IF r # <<>> /\ EntFmts(r[1]) # <<>>
                       THEN LET f == EntFmts(r[1])[1] IN [f |-> f, c |-> r[1].ents[f].c, a |-> r[1].ents[f].a]
                       ELSE IF r # <<>> THEN NoEnt ELSE G(i + 1)
  IN G(1)
\* find_existing_hash_formats_for_path: formats in order of first appearance
Existing(gens, rp) ==
  LET RECURSIVE G(_, _)
      G(i, acc) == IF i > Len(gens) THEN acc
                   ELSE LET r == RecOf(gens[i], rp)
                            add == IF r = <<>> THEN <<>>
                                   ELSE SelectSeq(EntFmts(r[1]), LAMBDA f : ~InSeq(acc, f))
                        IN  G(i + 1, acc \o add)
  IN G(1, <<>>)

(***************************************************************************)
(* seal_file_path + append_file_hash + _validate_new_hash_list             *)
(* (commands.py l.1486-1574, generator.py l.116-164, history.py l.387-405) *)
(***************************************************************************)
\* TLCEval forces TLC to materialise a value once instead of re-evaluating a lazy function body at
\* every application (semantically the identity)
Seal(gens, rp, F, content) ==
  LET req     == FmtSeq(F)
      orig    == FindOriginal(gens, rp).f
      ex      == Existing(gens, rp)
      carried == SelectSeq(ex, LAMBDA f : f \in F)
      base    == IF Len(ex) > 0 /\ Len(carried) = 0 THEN <<ex[1]>> ELSE carried
      gen     == base \o SelectSeq(req, LAMBDA f : ~InSeq(base, f))
      \* append_file_hash: original / verified / failed / new
      dec     == TLCEval([f \in SeqSet(gen) |->
                    IF orig = "none" THEN "original"
                    ELSE LET e == FindFirst(gens, rp, f)
                         IN  IF e.f = "none" THEN "new" ELSE IF e.c = content THEN "verified" ELSE "failed"])
      exG     == {f \in SeqSet(gen) : InSeq(ex, f)}             \* generated formats already recorded
      exOK    == \A f \in exG : dec[f] # "failed"
      newF    == SeqSet(gen) \ SeqSet(ex)
      recF    == exG \cup (IF exOK THEN newF ELSE {})
      \* _validate_new_hash_list: a "new" entry needs a verified entry of an already recorded
      \* format in the same record, then becomes "verified"
      hasNew  == \E f \in recF : dec[f] = "new"
      okNew   == \E f \in recF : dec[f] = "verified"
      final(f) == IF dec[f] = "new" THEN "verified" ELSE dec[f]
      \* success per requested format as returned to the caller
      succ(f) == IF f \in exG THEN dec[f] # "failed" ELSE exOK
  IN TLCEval(
     [ents   |-> [f \in recF |-> [c |-> content, a |-> final(f)]],
      abort  |-> hasNew /\ ~okNew,
      failed |-> \E f \in F : ~succ(f),                  \* folder mode: any requested format
      failed1 |-> ~succ(req[1]),                         \* -sf mode: first requested format only
      origfmt |-> orig])

(***************************************************************************)
(* Directory-hash semantics (hasher.DirectoryHashContext), on snapshots.   *)
(* Under digest injectivity, structure hash equality is equality of the    *)
(* labelled sub-tree and content hash equality is equality of the          *)
(* unlabelled content tree (model-checked on Merkle terms in MhlDirHash).  *)
(***************************************************************************)
\* One wrinkle of the definition: an empty directory hashes as the empty input, i.e. exactly like an
\* empty file ("EMPTY"), in content and in structure; the signatures identify the two.
Kids(dk, d, R, pats) == {p \in DOMAIN dk : Len(p) = Len(d) + 1 /\ Below(d, p) /\ ~Ign(R, p, pats)}
SSig(dk, d, R, pats) == {<<Rel(d, p), IF dk[p] = "EMPTY" THEN "DIR" ELSE dk[p]>> :
                            p \in {q \in DOMAIN dk : Below(d, q) /\ ~Ign(R, q, pats)}}
RECURSIVE CSig(_, _, _, _)
CSig(dk, d, R, pats) ==
  LET K    == Kids(dk, d, R, pats)
      T(k) == IF dk[k] = "DIR"
              THEN (IF Kids(dk, k, R, pats) = {} THEN <<"f", "EMPTY">> ELSE <<"d", CSig(dk, k, R, pats)>>)
              ELSE <<"f", dk[k]>>
      TS   == {T(k) : k \in K}
  IN [t \in TS |-> Cardinality({k \in K : T(k) = t})]

(***************************************************************************)
(* create (folder mode): commands.create_for_folder_subcommand             *)
(***************************************************************************)
RecordedPaths(hs, H) ==    \* history.set_of_file_paths over the visible histories, absolute
  UNION {{h \o rp : rp \in UNION {DOMAIN hs[h][i].files \cup DOMAIN hs[h][i].dirs : i \in DOMAIN hs[h]}}
         : h \in H \cap DOMAIN hs}
\* renamed_path_with_previous_path: previous path -> latest path.  Generations are processed in
\* order; a later rename of the same file re-points every former name to the newest one.
GenRenames(h, g) == {<<h \o g.files[rp].prev, h \o rp>> : rp \in {q \in DOMAIN g.files : g.files[q].prev # NoPath}}
HistRenames(hs, h) ==
  LET gens == hs[h]
      RECURSIVE G(_, _)
      G(i, acc) == IF i > Len(gens) THEN acc
                   ELSE LET R2 == GenRenames(h, gens[i])
                            re(v) == IF \E m \in R2 : m[1] = v THEN (CHOOSE m \in R2 : m[1] = v)[2] ELSE v
                            kept == {<<m[1], re(m[2])>> : m \in {x \in acc : ~\E y \in R2 : y[1] = x[1]}}
                        IN G(i + 1, kept \cup R2)
  IN G(1, {})
RenameMap(hs, H) == UNION {HistRenames(hs, h) : h \in H \cap DOMAIN hs}
Expected(hs, H) ==         \* the expected-path set rewritten through the rename map (one step)
  LET rm == RenameMap(hs, H)
  IN  {IF \E m \in rm : m[1] = p THEN (CHOOSE m \in rm : m[1] = p)[2] ELSE p : p \in RecordedPaths(hs, H)}

EffPats(hs, R, P) == Dedup(LatestPats(GensOf(hs, R)) \o P)

CreateResult(hs, dk, R, F, nodh, dr, P) ==
  LET eff     == EffPats(hs, R, P)
      H       == Visible(hs, dk, R)
      vis     == {p \in DOMAIN dk : Below(R, p) /\ ~Ign(R, p, eff)}
      vfiles  == {p \in vis : dk[p] # "DIR"}
      vdirs   == {p \in vis : dk[p] = "DIR"}
      own(p)  == OwnerIn(H, R, p, dk[p] = "DIR")
      seal    == TLCEval([p \in vfiles |-> Seal(GensOf(hs, own(p)), Rel(own(p), p), F, dk[p])])
      W       == {R} \cup {h \in H : h \in vdirs}              \* histories that write a generation
      notfound0 == Expected(hs, H) \ vis
      \* rename detection: a visited path absent from some generation of the root history is
      \* "new"; it matches a not-found path when its digest in that path's first recorded format
      \* equals the first recorded digest
      rootgens == GensOf(hs, R)
      newpaths == IF Len(rootgens) = 0 THEN {}
                  ELSE {p \in vis : \E i \in DOMAIN rootgens :
                            Rel(R, p) \notin (DOMAIN rootgens[i].files \cup DOMAIN rootgens[i].dirs)}
      nfh(q)   == OwnerIn(H, R, q, FALSE)
      first(q) == FindFirstAny(GensOf(hs, nfh(q)), Rel(nfh(q), q))
      matches  == IF ~dr THEN {}
                  ELSE {<<np, q>> \in (newpaths \cap vfiles) \X notfound0 :
                          first(q).f # "none" /\ first(q).c = dk[np]}
      found    == {m[2] : m \in matches}
      notfound == {q \in notfound0 \ found : ~Ign(R, q, eff)}
      prevOf(p) == IF \E m \in matches : m[1] = p
                   THEN LET q == (CHOOSE m \in matches : m[1] = p)[2] IN Rel(nfh(q), q)
                   ELSE NoPath
      dfm      == IF nodh THEN {} ELSE F
      gen(h) ==
        [n     |-> LatestN(GensOf(hs, h)) + 1,
         files |-> [rp \in {Rel(h, p) : p \in {q \in vfiles : own(q) = h}} |->
                      [ents |-> seal[h \o rp].ents, prev |-> prevOf(h \o rp)]],
         dirs  |-> [rp \in {Rel(h, d) : d \in {q \in vdirs : q # h /\
                               (own(q) = h \/ (q \in H /\ ParentHist(H, q) = h))}} |->
                      [fmts |-> dfm, prev |-> NoPath]],
         root  |-> [has |-> dfm # {}, fmts |-> dfm],
         pats  |-> Dedup(LatestPats(GensOf(hs, h)) \o eff),
         refs  |-> {[h |-> k, n |-> LatestN(GensOf(hs, k)) + 1] : k \in {x \in W \ {R} : x # h /\ ParentHist(H, x) = h}},
         proc  |-> "in-place",
         croot |-> R, ceff |-> eff,
         snap  |-> dk]
      anyfail == \E p \in vfiles : seal[p].failed
      abort   == \E p \in vfiles : seal[p].abort
      \* nested histories the latest generation references whose ascmhl folder has vanished (exit 30)
      lost    == IF Len(rootgens) = 0 THEN {}
                 ELSE {r.h : r \in {x \in rootgens[Len(rootgens)].refs : Len(GensOf(hs, x.h)) = 0 \/ ~IsDir(dk, x.h)}}
  IN [gens     |-> TLCEval([h \in W |-> gen(h)]),
      exit     |-> IF abort THEN 1 ELSE IF anyfail THEN 11 ELSE IF notfound # {} THEN 10
                   ELSE IF lost # {} THEN 30 ELSE 0,
      missing  |-> notfound,
      mismatch |-> {p \in vfiles : seal[p].failed},
      renamed  |-> matches,
      eff      |-> eff,
      abort    |-> abort]

(***************************************************************************)
(* create -sf: commands.create_for_single_files_subcommand.  S is a set of *)
(* named paths (files, or folders walked with the default patterns).       *)
(***************************************************************************)
CreateSFResult(hs, dk, R, F, S) ==
  LET H      == Visible(hs, dk, R)
      named  == {p \in DOMAIN dk : dk[p] # "DIR" /\
                   \E s \in S : (s = p) \/ (IsDir(dk, s) /\ Below(s, p) /\ ~Ign(s, p, Defaults))}
      own(p) == OwnerIn(H, R, p, FALSE)
      seal   == TLCEval([p \in named |-> Seal(GensOf(hs, own(p)), Rel(own(p), p), F, dk[p])])
      T      == {own(p) : p \in named}                           \* histories that received records
      W      == {h \in H : \E t \in T : BelowEq(h, t)}           \* ... and their ancestors
      gen(h) ==
        [n     |-> LatestN(GensOf(hs, h)) + 1,
         files |-> [rp \in {Rel(h, p) : p \in {q \in named : own(q) = h}} |->
                      [ents |-> seal[h \o rp].ents, prev |-> NoPath]],
         dirs  |-> <<>>,
         root  |-> [has |-> FALSE, fmts |-> {}],
         pats  |-> Dedup(LatestPats(GensOf(hs, h)) \o Defaults),
         refs  |-> {[h |-> k, n |-> LatestN(GensOf(hs, k)) + 1] : k \in {x \in W \ {R} : x # h /\ ParentHist(H, x) = h}},
         proc  |-> "in-place",
         croot |-> R, ceff |-> Defaults,
         snap  |-> dk]
      anyfail == \E p \in named : seal[p].failed1
      abort   == \E p \in named : seal[p].abort
  IN [gens     |-> TLCEval([h \in W |-> gen(h)]),
      exit     |-> IF abort THEN 1 ELSE IF anyfail THEN 11 ELSE 0,
      missing  |-> {},
      mismatch |-> {p \in named : seal[p].failed1},
      renamed  |-> {},
      eff      |-> Defaults,
      abort    |-> abort]

(***************************************************************************)
(* verify (whole folder / -sf) and diff                                    *)
(***************************************************************************)
\* the lookup path of a file goes one step back through previousPath, using the records of the
\* history the file belongs to (commands.py verify_entire_folder / diff_entire_folder_against_full_history)
LookupPath(hs, R, h, rp) ==
  LET gens == GensOf(hs, h)
      RECURSIVE G(_)
      G(i) == IF i > Len(gens) THEN rp
              ELSE IF rp \in DOMAIN gens[i].files
                   THEN (IF gens[i].files[rp].prev # NoPath THEN gens[i].files[rp].prev ELSE rp)
                   ELSE G(i + 1)
  IN G(1)

VerifyResult(hs, dk, R, P, single) ==       \* single = NoPath or the absolute path given with -sf
  LET eff     == EffPats(hs, R, P)
      H       == Visible(hs, dk, R)
      vis     == {p \in DOMAIN dk : Below(R, p) /\ ~Ign(R, p, eff)}
      vfiles  == {p \in vis : dk[p] # "DIR"}
      sel     == IF single = NoPath THEN vfiles ELSE vfiles \cap {single}
      own(p)  == OwnerIn(H, R, p, FALSE)
      orig(p) == FindOriginal(GensOf(hs, own(p)), LookupPath(hs, R, own(p), Rel(own(p), p)))
      new     == {p \in sel : orig(p).f = "none"}
      bad     == {p \in sel \ new : orig(p).c # dk[p]}
      hashed  == sel \ new
      notfound == {q \in Expected(hs, H) \ vis : ~Ign(R, q, eff)}
  IN IF Len(GensOf(hs, R)) = 0                      \* refused before anything is looked at
     THEN [exit |-> 30, missing |-> {}, mismatch |-> {}, new |-> {}]
     ELSE
     [exit |-> IF bad # {} THEN 11
               ELSE IF new # {} THEN 21
               ELSE IF single # NoPath /\ hashed = {} THEN 20
               ELSE IF notfound # {} THEN 10 ELSE 0,
      missing |-> notfound, mismatch |-> bad, new |-> new]

DiffResult(hs, dk, R, P) ==
  LET v == VerifyResult(hs, dk, R, P, NoPath)
  IN [exit |-> IF Len(GensOf(hs, R)) = 0 THEN 30
               ELSE IF v.missing # {} THEN 10 ELSE IF v.new # {} THEN 21 ELSE 0,
      missing |-> v.missing, mismatch |-> {}, new |-> v.new]

(***************************************************************************)
(* verify -dh: recompute directory hashes bottom-up, compare every         *)
(* directory and the root with every recorded entry of the owning history. *)
(* A recorded hash stands for the snapshot its generation was made from.   *)
(***************************************************************************)
\* formats computed: those of the root hashes of every loaded history (c4 when there is none)
VerifyDHFormats(hs, H) ==
  LET U == UNION {UNION {hs[h][i].root.fmts : i \in DOMAIN hs[h]} : h \in H \cap DOMAIN hs}
  IN  IF U = {} THEN {"c4"} ELSE U

\* the patterns a recorded generation was hashed under are those of the run that wrote it:
\* its recorded pattern list contains them (C12), and matching is monotone in the list
DirRecords(hs, H, R, d) ==
  \* <<generation, dir path in that generation's snapshot, formats>> for every record of d
  LET h  == OwnerIn(H, R, d, TRUE)
      rp == Rel(h, d)
      gens == GensOf(hs, h)
  IN  IF rp = Root
      THEN {<<h, i>> : i \in {j \in DOMAIN gens : gens[j].root.has}}
      ELSE {<<h, i>> : i \in {j \in DOMAIN gens : rp \in DOMAIN gens[j].dirs /\ gens[j].dirs[rp].fmts # {}}}

\* verify -dh [-h hf] [-co] [-ro].  hf = "" : the formats of every loaded history.
\*   -ro : sub-directories are calculated but not compared (the root always is)
\*   -co : a recorded entry in a format that was not calculated is no failure
\* A sub-directory entry in a format that was not calculated counts as a failure of *that* format when the
\* directory has no entry in any calculated format; the run fails (12) when the number of formats with a failure
\* equals the number of calculated formats (commands.py, failures_per_format_lookup).
VerifyDHResultX(hs, dk, R, P, hf, co, ro) ==
  LET eff   == EffPats(hs, R, P)
      H     == Visible(hs, dk, R)
      F     == IF hf = "" THEN VerifyDHFormats(hs, H) ELSE {hf}
      dirs  == {R} \cup {p \in DOMAIN dk : Below(R, p) /\ dk[p] = "DIR" /\ ~Ign(R, p, eff)}
      recF(h, i, d) == IF Rel(h, d) = Root THEN hs[h][i].root.fmts ELSE hs[h][i].dirs[Rel(h, d)].fmts
      same(h, i, d) ==
        LET g == hs[h][i]
        IN /\ SSig(g.snap, d, g.croot, g.ceff) = SSig(dk, d, R, eff)
           /\ CSig(g.snap, d, g.croot, g.ceff) = CSig(dk, d, R, eff)
      recs(d)   == DirRecords(hs, H, R, d)
      entF(d)   == UNION {recF(r[1], r[2], d) : r \in recs(d)}
      subFail(f) == \E d \in dirs \ {R} : \E r \in recs(d) :
                      /\ f \in recF(r[1], r[2], d)
                      /\ \/ (f \in F /\ ~ro /\ ~same(r[1], r[2], d))
                         \/ (f \notin F /\ ~co /\ entF(d) \cap F = {})
      rootFail(f) == f \in F /\ \E r \in recs(R) : f \in recF(r[1], r[2], R) /\ ~same(r[1], r[2], R)
      keys      == {f \in SeqSet(Fmts) : subFail(f) \/ rootFail(f)}
      unknownF  == \E d \in dirs : \E r \in recs(d) : ~(recF(r[1], r[2], d) \subseteq F)
      baddirs   == {d \in dirs : \E r \in recs(d) : ~same(r[1], r[2], d)}
  IN [exit |-> IF keys # {} /\ Cardinality(keys) = Cardinality(F) THEN 12 ELSE 0,
      baddirs |-> baddirs, unknown |-> unknownF, formats |-> F]
VerifyDHResult(hs, dk, R, P) == VerifyDHResultX(hs, dk, R, P, "", FALSE, FALSE)

(***************************************************************************)
(* flatten: first non-failed digest per path and format, generation order  *)
(***************************************************************************)
FlattenResult(hs, R) ==
  LET gens  == GensOf(hs, R)
      paths == UNION {DOMAIN gens[i].files : i \in DOMAIN gens}
      cand(p, f) == {i \in DOMAIN gens : p \in DOMAIN gens[i].files /\ f \in DOMAIN gens[i].files[p].ents
                                          /\ gens[i].files[p].ents[f].a # "failed"}
      fm(p)  == {f \in SeqSet(Fmts) : cand(p, f) # {}}
      ent(p, f) == gens[Min(cand(p, f))].files[p].ents[f]
      keep  == {p \in paths : fm(p) # {}}
  IN [exit  |-> IF Len(gens) = 0 THEN 30 ELSE 0,
      files |-> [p \in keep |-> [f \in fm(p) |-> ent(p, f)]]]

(***************************************************************************)
(* verify -pl: the packing list is a one-generation history without        *)
(* children (history.load_from_packing_list_path)                          *)
(***************************************************************************)
PackingHist(R, flat) ==
  (R :> <<[n |-> 1, files |-> [p \in DOMAIN flat.files |-> [ents |-> flat.files[p], prev |-> NoPath]],
           dirs |-> <<>>, root |-> [has |-> FALSE, fmts |-> {}], pats |-> flat.pats, refs |-> {},
           proc |-> "flatten", croot |-> R, ceff |-> flat.pats, snap |-> <<>>]>>)
VerifyPLResult(dk, R, flat) ==
  \* children are not loaded: every file below R is looked up in the packing list itself
  LET hs  == PackingHist(R, flat)
      dk1 == [p \in {q \in DOMAIN dk : Below(R, q)} |-> dk[p]]
  IN VerifyResult(hs, dk1, R, <<>>, NoPath)

(***************************************************************************)
(* info                                                                    *)
(***************************************************************************)
\* info ROOT: for the history at R and every history below it, the generation numbers in order
InfoResult(hs, dk, R) ==
  IF Len(GensOf(hs, R)) = 0 THEN [exit |-> 30, listing |-> <<>>]
  ELSE [exit |-> 0,
        listing |-> [h \in {x \in Visible(hs, dk, R) : Len(GensOf(hs, x)) > 0} |-> [i \in DOMAIN hs[h] |-> hs[h][i].n]]]
\* info -sf FILE [ROOT]: one line per recorded digest in the history at H (nearest enclosing root)
NearestRoot(hs, dk, s) ==
  LET C == {h \in HRoots(hs) : Below(h, s) /\ IsDir(dk, h)}
  IN IF C = {} THEN NoPath ELSE Deepest(C)
InfoSFResult(hs, H, s) ==
  IF H = NoPath \/ Len(GensOf(hs, H)) = 0 THEN [exit |-> 30, lines |-> <<>>]
  ELSE LET gens == hs[H]
           rp == Rel(H, s)
           RECURSIVE G(_)
           G(i) == IF i > Len(gens) THEN <<>>
                   ELSE LET r == RecOf(gens[i], rp)
                            here == IF r = <<>> THEN <<>>
                                    ELSE [k \in DOMAIN EntFmts(r[1]) |->
                                            LET f == EntFmts(r[1])[k] IN
                                            [n |-> gens[i].n, f |-> f, c |-> r[1].ents[f].c, a |-> r[1].ents[f].a]]
                        IN here \o G(i + 1)
       IN [exit |-> 0, lines |-> G(1)]

(***************************************************************************)
(*                        Layer P : the properties                         *)
(* pre / post are history functions, dk the media tree (commands never     *)
(* change it), op the operation record, ob the observation record          *)
(* [exit, internal, missing, mismatch, new, ...], ign the set of paths     *)
(* matched by the effective patterns (decided outside the tool).           *)
(***************************************************************************)
NewGens(pre, post, h) ==
  LET a == GensOf(pre, h) b == GensOf(post, h) IN SubSeq(b, Len(a) + 1, Len(b))
Wrote(pre, post) == {h \in DOMAIN post : Len(GensOf(post, h)) > Len(GensOf(pre, h))}
NonIgn(dk, R, ign) == {p \in DOMAIN dk : Below(R, p) /\ p \notin ign}

\* ---- C02 -------------------------------------------------------------------------------
\* absolute paths recorded by the generations the run wrote (a nested root's "." record counts
\* for the nested root directory itself)
RecordedBy(pre, post) ==
  UNION {UNION {{h \o rp : rp \in DOMAIN g.files \cup DOMAIN g.dirs} : g \in SeqSet(NewGens(pre, post, h))}
         : h \in Wrote(pre, post)}
P_C02_RecordSet(pre, post, dk, op, ob, ign) ==
  (op.op = "create" /\ ob.exit \in {0, 10, 11})
    => /\ RecordedBy(pre, post) = NonIgn(dk, op.R, ign)
       /\ \A h \in Wrote(pre, post) : Len(NewGens(pre, post, h)) = 1
P_C02_Digests(pre, post, dk, op, ob) ==
  (op.op \in {"create", "createsf"} /\ ob.exit \in {0, 10, 11})
    => \A h \in Wrote(pre, post) : \A g \in SeqSet(NewGens(pre, post, h)) :
         \A rp \in DOMAIN g.files :
            /\ IsFile(dk, h \o rp)
            /\ \A f \in DOMAIN g.files[rp].ents : g.files[rp].ents[f].c = dk[h \o rp]
            /\ (ob.exit = 0 => SeqSet(FmtSeq(op.F)) \subseteq DOMAIN g.files[rp].ents)
            /\ DOMAIN g.files[rp].ents # {}
P_C02_SingleFiles(pre, post, dk, op, ob) ==
  (op.op = "createsf" /\ ob.exit \in {0, 11})
    => LET named == {p \in DOMAIN dk : dk[p] # "DIR" /\ \E s \in op.S :
                        s = p \/ (IsDir(dk, s) /\ Below(s, p) /\ ~Ign(s, p, Defaults))}
       IN /\ RecordedBy(pre, post) = named
          /\ \A h \in Wrote(pre, post) : \A g \in SeqSet(NewGens(pre, post, h)) : DOMAIN g.dirs = {}

\* ---- C03 -------------------------------------------------------------------------------
\* "unchanged since it was sealed": some folder-mode create that exited 0 at root S above (or
\* at) the command root saw exactly the same non-ignored tree below the command root
Unchanged(pre, dk, sealed, R, ign) ==
  \E S \in DOMAIN sealed : BelowEq(S, R) /\
     LET sd == sealed[S].disk
     IN /\ {p \in DOMAIN sd : Below(R, p) /\ p \notin ign} = NonIgn(dk, R, ign)
        /\ \A p \in NonIgn(dk, R, ign) : sd[p] = dk[p]
        \* ... everything looked at now was looked at then (a negation pattern can un-ignore a path that was never sealed)
        /\ NonIgn(dk, R, ign) \cap sealed[S].ign = {}
        \* ... and no history that existed then has been removed since
        /\ \A h \in sealed[S].hroots : BelowEq(R, h) => Len(GensOf(pre, h)) > 0
\* ghost: sealed[S] = the tree as it was when a folder-mode create at S last exited 0, dropped as
\* soon as any later run records something in a history above, at or below S
SealedNext(sealed, dk, W, op, exit, post, ign) ==
  LET keep == {S \in DOMAIN sealed : \A h \in W : ~BelowEq(S, h) /\ ~BelowEq(h, S)}
      \* a seal remembers the tree, the histories that existed below its root and what the sealing run ignored
      seal == [disk |-> dk, hroots |-> {h \in HRoots(post) : BelowEq(op.R, h)}, ign |-> ign]
  IN  IF op.op = "create" /\ exit = 0
      THEN [S \in keep \cup {op.R} |-> IF S = op.R THEN seal ELSE sealed[S]]
      ELSE [S \in keep |-> sealed[S]]
P_C03_NoFalseAlarm(pre, dk, sealed, op, ob, ign) ==
  (op.op \in {"create", "verify", "diff"} /\ Len(GensOf(pre, op.R)) > 0 /\ Unchanged(pre, dk, sealed, op.R, ign))
    => ob.exit = 0
\* what the histories in scope say about a path: the content its first generation recorded
FirstContent(pre, dk, R, p) ==
  LET H == Visible(pre, dk, R)
      h == OwnerIn(H, R, p, FALSE)
  IN FindOriginal(GensOf(pre, h), Rel(h, p))
EverRecorded(pre, dk, R) == RecordedPaths(pre, Visible(pre, dk, R))
HasRenames(pre, dk, R)   == RenameMap(pre, Visible(pre, dk, R)) # {}
\* named deviation Dev_F17 (known_findings.json): when two recorded paths of a history hold the same
\* first content and one of them is gone, create -dr lets one new file stand for both missing paths
\* but can store only one previous path; the run exits 0 and the next run reports the other missing.
AmbiguousRecorded(pre, dk, R) ==
  \E p, q \in EverRecorded(pre, dk, R) :
     /\ p # q /\ p \notin DOMAIN dk
     /\ FirstContent(pre, dk, R, p).f # "none" /\ FirstContent(pre, dk, R, p).c = FirstContent(pre, dk, R, q).c
P_C03_Altered(pre, dk, op, ob, ign) ==
  (op.op \in {"create", "verify"} /\ Len(GensOf(pre, op.R)) > 0 /\ ~HasRenames(pre, dk, op.R))
    => LET alt == {p \in NonIgn(dk, op.R, ign) : dk[p] # "DIR" /\
                     LET o == FirstContent(pre, dk, op.R, p) IN o.f # "none" /\ o.c # dk[p]}
       IN alt # {} => (ob.exit = 11 /\ alt \subseteq ob.mismatch)
P_C03_Removed(pre, dk, op, ob, ign) ==
  (op.op \in {"create", "verify", "diff"} /\ Len(GensOf(pre, op.R)) > 0 /\ ~HasRenames(pre, dk, op.R)
     /\ (op.op = "create" => ~op.dr))
    => LET gone == {p \in EverRecorded(pre, dk, op.R) : p \notin DOMAIN dk /\ p \notin ign /\ ~Ign(op.R, p, ob.eff)}
       IN gone # {} => (ob.exit # 0 /\ (ob.exit \in {10, 11, 21}) /\ gone \subseteq ob.missing
                        /\ (ob.mismatch = {} /\ ob.new = {} => ob.exit = 10))
P_C03_Added(pre, dk, op, ob, ign) ==
  (op.op \in {"verify", "diff"} /\ Len(GensOf(pre, op.R)) > 0 /\ ~HasRenames(pre, dk, op.R))
    => LET added == {p \in NonIgn(dk, op.R, ign) : dk[p] # "DIR" /\ FirstContent(pre, dk, op.R, p).f = "none"}
       IN added # {} => (ob.exit # 0 /\ added \subseteq ob.new
                         /\ (op.op = "verify" /\ ob.mismatch = {} => ob.exit = 21)
                         /\ (op.op = "diff" /\ ob.missing = {} => ob.exit = 21))
P_C03_Quiet(pre, dk, op, ob, ign) ==       \* nothing is reported about ignored or untouched paths
  (op.op \in {"create", "verify", "diff"} /\ Len(GensOf(pre, op.R)) > 0)
    => /\ (ob.missing \cup ob.mismatch \cup ob.new) \cap ign = {}
       /\ \A p \in ob.mismatch : IsFile(dk, p) /\ LET o == FirstContent(pre, dk, op.R, p) IN o.f = "none" \/ o.c # dk[p] \/ HasRenames(pre, dk, op.R)
       /\ ob.missing \cap DOMAIN dk = {}
       \* never a false one: what is reported new was never recorded, what is reported missing was
       /\ (~HasRenames(pre, dk, op.R) =>
             /\ \A p \in ob.new : IsFile(dk, p) /\ FirstContent(pre, dk, op.R, p).f = "none"
             /\ ob.missing \subseteq EverRecorded(pre, dk, op.R))

\* ---- C04 -------------------------------------------------------------------------------
\* the first recorded digest of path rp in format f
FirstDig(gens, rp, f) == FindFirst(gens, rp, f)
P_C04_Judged(pre, post, dk, op, ob) ==
  (op.op \in {"create", "createsf"} /\ ob.exit \in {0, 10, 11})
    => \A h \in Wrote(pre, post) : \A g \in SeqSet(NewGens(pre, post, h)) : \A rp \in DOMAIN g.files :
         \* judged by path: a file recorded under a new name (rename detection) starts as original.
         \* "first recorded" refers to the history the file belongs to - the deepest one whose root contains it -
         \* wherever this run happened to write the record
         LET H      == Visible(pre, dk, op.R) \cup Wrote(pre, post)
             own    == IF IsFile(dk, h \o rp) THEN OwnerIn(H, op.R, h \o rp, FALSE) ELSE h
             old    == GensOf(pre, own)
             lp     == IF own = h THEN rp ELSE Rel(own, h \o rp)
             known  == \E i \in DOMAIN old : RecOf(old[i], lp) # <<>>
             ents   == g.files[rp].ents
         IN IF ~known
            THEN \A f \in DOMAIN ents : ents[f].a = "original"
            ELSE /\ \A f \in DOMAIN ents : ents[f].a # "original"
                 /\ \A f \in DOMAIN ents :
                      LET e == FirstDig(old, lp, f)
                      IN IF e.f # "none"
                         THEN ents[f].a = (IF e.c = ents[f].c THEN "verified" ELSE "failed")
                         ELSE \* new format: only beside a verified, already recorded format
                              /\ ents[f].a = "verified"
                              /\ \E f2 \in DOMAIN ents : FirstDig(old, lp, f2).f # "none" /\ ents[f2].a = "verified"
                              /\ \A f2 \in DOMAIN ents : ents[f2].a # "failed"
                 \* a failed check is itself recorded
                 /\ (\E f \in DOMAIN ents : FirstDig(old, lp, f).f # "none")
P_C04_UnalteredOk(pre, dk, op, ob) ==
  \* every format choice succeeds while every file still has its first recorded content
  (op.op \in {"create", "createsf"} /\
     \A p \in DOMAIN dk : (dk[p] # "DIR" /\ Below(op.R, p)) =>
        LET o == FirstContent(pre, dk, op.R, p) IN o.f = "none" \/ o.c = dk[p])
    => (~ob.internal /\ ob.exit \in {0, 10, 30})

\* ---- C06 (on abstract generations; byte-level clauses are added by the trace spec) ------
P_C06_AppendOnly(pre, post) ==
  \A h \in DOMAIN pre :
     /\ h \in DOMAIN post
     /\ IsPrefix(pre[h], post[h])
     /\ Len(post[h]) <= Len(pre[h]) + 1
P_C06_Numbered(pre, post) ==
  \A h \in DOMAIN post : \A i \in DOMAIN post[h] : post[h][i].n = i

\* ---- C08 -------------------------------------------------------------------------------
P_C08_Partition(pre, post, dk, op, ob) ==
  (op.op \in {"create", "createsf"} /\ ob.exit \in {0, 10, 11})
    => LET H == Visible(pre, dk, op.R) \cup Wrote(pre, post)
       IN \A h \in Wrote(pre, post) : \A g \in SeqSet(NewGens(pre, post, h)) :
            \* a record names an existing entry by its path relative to the history root (nothing like ../x) ...
            /\ \A rp \in DOMAIN g.files : IsFile(dk, h \o rp)
            /\ \A rp \in DOMAIN g.dirs : IsDir(dk, h \o rp)
            \* ... and that entry belongs to this history and to no deeper one
            /\ \A rp \in DOMAIN g.files : OwnerIn(H, op.R, h \o rp, FALSE) = h
            /\ \A rp \in DOMAIN g.dirs :
                 LET d == h \o rp IN
                 IF d \in H THEN ParentHist(H, d) = h       \* a nested root, seen from its parent
                 ELSE OwnerIn(H, op.R, d, TRUE) = h
P_C08_ChildRoot(pre, post, dk, op, ob) ==
  \* each nested root appears in its parent's new generation with the child's own root formats
  (op.op = "create" /\ ob.exit \in {0, 10, 11})
    => LET H == Visible(pre, dk, op.R) IN
       \A k \in (Wrote(pre, post) \cap H) \ {op.R} :
          LET h  == ParentHist(H, k)
              gk == Last(post[k])
          IN /\ h \in Wrote(pre, post)
             /\ Rel(h, k) \in DOMAIN Last(post[h]).dirs
             /\ Last(post[h]).dirs[Rel(h, k)].fmts = gk.root.fmts
P_C08_Refs(pre, post, dk, op, ob) ==
  (op.op \in {"create", "createsf"} /\ ob.exit \in {0, 10, 11})
    => LET H == Visible(pre, dk, op.R) IN
       \A h \in Wrote(pre, post) :
          Last(post[h]).refs =
            {[h |-> k, n |-> Last(post[k]).n] : k \in {x \in (Wrote(pre, post) \cap H) \ {op.R} : ParentHist(H, x) = h}}
P_C08_WhoWrites(pre, post, dk, op, ob, ign) ==
  (op.op \in {"create", "createsf"} /\ ob.exit \in {0, 10, 11})
    => LET H == Visible(pre, dk, op.R)
           W == Wrote(pre, post)
       IN IF op.op = "create"
          THEN W = {op.R} \cup {h \in H : h # op.R /\ h \notin ign}
          ELSE LET T == {OwnerIn(H, op.R, op.R \o Rel(op.R, p), FALSE) : p \in RecordedBy(pre, post)}
               IN W = {h \in H : \E t \in T : BelowEq(h, t)}

\* the histories a generation-writing command is entitled to write into (C08's last sentence, used by C14):
\* folder mode: the command root and every loaded history whose root is not ignored;
\* -sf: the histories owning the named files (files below named folders included) and the histories above them
InScope(pre, dk, op, ign) ==
  LET H == Visible(pre, dk, op.R)
  IN IF op.op = "create" THEN {op.R} \cup {h \in H : h \notin ign}
     ELSE LET named == {p \in DOMAIN dk : dk[p] # "DIR" /\ \E s \in op.S : s = p \/ (IsDir(dk, s) /\ Below(s, p))}
              T     == {OwnerIn(H, op.R, p, FALSE) : p \in named}
          IN {h \in H : \E t \in T : BelowEq(h, t)}
P_C14_Scope(pre, post, dk, op, ign) ==
  op.op \in {"create", "createsf"} => Wrote(pre, post) \subseteq InScope(pre, dk, op, ign)

\* ---- C12 -------------------------------------------------------------------------------
P_C12_Excluded(pre, post, op, ob, ign) ==
  (op.op = "create" /\ ob.exit \in {0, 10, 11}) => RecordedBy(pre, post) \cap ign = {}
P_C12_Accumulate(pre, post, op, ob) ==
  (op.op \in {"create", "createsf"} /\ ob.exit \in {0, 10, 11})
    => \A h \in Wrote(pre, post) :
         LET new == Last(post[h]).pats
             old == IF Len(GensOf(pre, h)) > 0 THEN Last(pre[h]).pats ELSE <<>>
         IN /\ IsPrefix(old, new)
            /\ Cardinality(SeqSet(new)) = Len(new)
            /\ (op.op = "create" => SeqSet(ob.eff) \subseteq SeqSet(new))
            /\ (h = op.R /\ op.op = "create" => new = ob.eff)

\* ---- C18 -------------------------------------------------------------------------------
\* flat: [files : [path -> [fmt -> [c, a]]], ndirs, proc] as read from the written packing list
P_C18_Summary(pre, dk, op, ob, flat) ==
  \* (a history that never recorded a file is flattened into nothing at all; not asserted)
  (op.op = "flatten" /\ ob.exit = 0 /\ Visible(pre, dk, op.R) = {op.R} /\ ~HasRenames(pre, dk, op.R)
     /\ \E i \in DOMAIN GensOf(pre, op.R) : DOMAIN GensOf(pre, op.R)[i].files # {})
    => LET gens == GensOf(pre, op.R)
           paths == UNION {DOMAIN gens[i].files : i \in DOMAIN gens}
           okgens(p, f) == {i \in DOMAIN gens : p \in DOMAIN gens[i].files /\ f \in DOMAIN gens[i].files[p].ents
                                                  /\ gens[i].files[p].ents[f].a # "failed"}
           fm(p) == {f \in SeqSet(Fmts) : okgens(p, f) # {}}
       IN /\ DOMAIN flat.files = {p \in paths : fm(p) # {}}
          /\ \A p \in DOMAIN flat.files :
                /\ DOMAIN flat.files[p] = fm(p)
                /\ \A f \in fm(p) : flat.files[p][f].c = gens[Min(okgens(p, f))].files[p].ents[f].c
          /\ flat.ndirs = 0 /\ flat.proc = "flatten"
P_C18_VerifyPL(dk, sealedDisk, op, ob, flat, ign) ==
  \* the tree is "unchanged" when it holds exactly the files the packing list describes, with the
  \* contents it describes (flat.complete: no other non-ignored file exists)
  op.op = "verifypl" =>
    LET same == \A p \in DOMAIN flat.files : p \in ign \/
                   (IsFile(dk, p) /\ \A f \in DOMAIN flat.files[p] : flat.files[p][f].c = dk[p])
        altered == \E p \in DOMAIN flat.files : IsFile(dk, p) /\ p \notin ign /\
                      \E f \in DOMAIN flat.files[p] : flat.files[p][f].a = "original" /\ flat.files[p][f].c # dk[p]
    IN /\ (same /\ flat.complete => ob.exit = 0)
       /\ (altered => ob.exit = 11)

\* ---- C19 -------------------------------------------------------------------------------
P_C19_Info(pre, dk, op, ob) ==
  op.op = "info" => LET r == InfoResult(pre, dk, op.R) IN ob.exit = r.exit /\ (r.exit = 0 => ob.listing = r.listing)
P_C19_InfoSF(pre, dk, op, ob) ==
  op.op = "infosf" =>
    LET H == IF op.R = NoPath THEN NearestRoot(pre, dk, op.S) ELSE op.R
        r == InfoSFResult(pre, H, op.S)
    IN (op.R = NoPath \/ op.R = NearestRoot(pre, dk, op.S)) => (ob.exit = r.exit /\ (r.exit = 0 => ob.lines = r.lines))

\* ---- C09 -------------------------------------------------------------------------------
\* generations of history h that carry directory hashes, and whether the tree below h is what they saw
DHGens(hs, h) == {i \in DOMAIN GensOf(hs, h) : hs[h][i].root.has}
SameAsGen(hs, dk, h, i, R, eff) ==
  LET g == hs[h][i] IN SSig(g.snap, h, g.croot, g.ceff) = SSig(dk, h, R, eff)
\* with -h hf only generations that carry a directory hash in hf can be compared at all
Covered(hs, dk, R, hf) ==
  hf = "" \/ \A h \in Visible(hs, dk, R) \cap DOMAIN hs : \A i \in DHGens(hs, h) : hf \in hs[h][i].root.fmts
P_C09_Identical(pre, dk, op, ob) ==
  (op.op = "verifydh" /\ (op.co \/ Covered(pre, dk, op.R, op.h)))
    => LET H == Visible(pre, dk, op.R) IN
       (\A h \in H : \A i \in DHGens(pre, h) : SameAsGen(pre, dk, h, i, op.R, ob.eff)) => ob.exit = 0
P_C09_Detects(pre, dk, op, ob) ==
  (op.op = "verifydh" /\ DHGens(pre, op.R) # {} /\ Covered(pre, dk, op.R, op.h))
    => ((\A i \in DHGens(pre, op.R) : ~SameAsGen(pre, dk, op.R, i, op.R, ob.eff)) => ob.exit = 12)
\* named deviation Dev_F4b (known_findings.json): the exit rule needs a failure in *every* computed
\* format, so a change can go unreported when the loaded histories do not all use the same formats.
\* The model reproduces the rule; its own check of P_C09_Detects therefore excludes such states.
UniformFormats(hs, dk, R) ==
  LET H == Visible(hs, dk, R)
      F == VerifyDHFormats(hs, H)
  IN \A h \in H \cap DOMAIN hs : \A i \in DHGens(hs, h) : hs[h][i].root.fmts = F
P_C09_NoInternal(op, ob) == op.op = "verifydh" => (~ob.internal /\ ob.exit \in {0, 12})

\* ---- C17 -------------------------------------------------------------------------------
\* recorded files that are gone, paired with unrecorded files that hold their (distinct) content
Moves(pre, dk, R) ==
  LET H    == Visible(pre, dk, R)
      gone == {p \in Expected(pre, H) : p \notin DOMAIN dk /\ FirstContent(pre, dk, R, p).f # "none"}
      new  == {q \in DOMAIN dk : Below(R, q) /\ dk[q] # "DIR" /\ FirstContent(pre, dk, R, q).f = "none"}
  IN {<<p, q>> \in gone \X new : FirstContent(pre, dk, R, p).c = dk[q]}
DistinctFiles(dk, R) == \A p, q \in {x \in DOMAIN dk : Below(R, x) /\ dk[x] # "DIR"} : p # q => dk[p] # dk[q]
P_C17_Renamed(pre, post, dk, op, ob, ign) ==
  (op.op = "create" /\ op.dr /\ ob.exit \in {0, 10, 11} /\ Len(GensOf(pre, op.R)) > 0
     /\ Visible(pre, dk, op.R) = {op.R} /\ DistinctFiles(dk, op.R)
     \* each gone file matches one new file and vice versa (recorded contents pairwise distinct too)
     /\ \A m1, m2 \in Moves(pre, dk, op.R) : (m1[1] = m2[1] \/ m1[2] = m2[2]) => m1 = m2)
    => LET M == {m \in Moves(pre, dk, op.R) : m[1] \notin ign /\ m[2] \notin ign}
           g == Last(post[op.R])
       IN /\ \A m \in M : /\ Rel(op.R, m[2]) \in DOMAIN g.files
                            /\ g.files[Rel(op.R, m[2])].prev = Rel(op.R, m[1])
                            /\ m[1] \notin ob.missing
          \* nothing else is wrong => the run succeeds
          /\ ((\A p \in Expected(pre, {op.R}) : p \in DOMAIN dk \/ p \in ign \/ \E m \in M : m[1] = p)
               /\ (\A q \in NonIgn(dk, op.R, ign) : dk[q] # "DIR" =>
                      LET o == FirstContent(pre, dk, op.R, q) IN o.f = "none" \/ o.c = dk[q]))
              => ob.exit = 0
\* verify still fails when a renamed file's content was changed as well
P_C17_Altered(pre, dk, op, ob, ign) ==
  (op.op = "verify" /\ Len(GensOf(pre, op.R)) > 0 /\ HasRenames(pre, dk, op.R))
    => LET alt == {p \in NonIgn(dk, op.R, ign) : dk[p] # "DIR" /\
                     LET o == FirstContent(pre, dk, op.R, p) IN o.f # "none" /\ o.c # dk[p]}
       IN alt # {} => ob.exit = 11
P_C17_NoInternal(op, ob) == (op.op = "create" /\ op.dr) => ~ob.internal
=============================================================================
