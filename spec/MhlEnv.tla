------------------------------- MODULE MhlEnv -------------------------------
(***************************************************************************)
(* C13.  The state and the transition function of MhlHistory have neither  *)
(* an absolute location nor an enumeration order: CreateResult & co. take  *)
(* (histories, tree, root *relative* arguments) only.  Hence two real      *)
(* executions of the same behaviour that differ only in where the tree is  *)
(* mounted, how the root argument is spelled, or in which order the        *)
(* operating system lists directories must be observationally identical.   *)
(* Each trace line groups the observations of one step of one behaviour    *)
(* under several such environments; this module judges the group.          *)
(***************************************************************************)
EXTENDS Integers, Sequences, FiniteSets, TLC, Json, IOUtils

VARIABLE l
TraceLog == ndJsonDeserialize(IOEnv.TRACE_FILE)

Same(vs, F(_)) == \A k \in DOMAIN vs : F(vs[k]) = F(vs[1])

\* bytes of every file below every ascmhl folder, keyed by its path relative to the root
P_C13_SameBytes(e) == Same(e.variants, LAMBDA v : v.hbytes)
P_C13_SameExit(e)  == Same(e.variants, LAMBDA v : v.exit)
P_C13_SameOut(e)   == Same(e.variants, LAMBDA v : v.out)
\* a sealed tree copied elsewhere verifies there
P_C13_Copy(e) == \A k \in DOMAIN e.variants :
                    \A j \in DOMAIN e.variants[k].copies : e.variants[k].copies[j].exit = e.variants[k].copies[j].orig

Verdict(e) ==
  [tid |-> e.tid, i |-> e.i, op |-> e.op.op, exit |-> e.variants[1].exit, kind |-> "env",
   P_C13_SameBytes |-> P_C13_SameBytes(e), P_C13_SameExit |-> P_C13_SameExit(e),
   P_C13_SameOut |-> P_C13_SameOut(e), P_C13_Copy |-> P_C13_Copy(e),
   A_wrote |-> e.variants[1].wrote]

Init == l = 1
Next == /\ l <= Len(TraceLog)
        /\ PrintT(<<"V", ToJson(Verdict(TraceLog[l]))>>)
        /\ l' = l + 1
Spec == Init /\ [][Next]_l
=============================================================================
