SPECIFICATION Spec
CONSTANTS
 K = 4
 MaxLen = 13
 Hashers = {"c4", "md5", "xxh64"}
 B = 3
 Wd = 4
INVARIANT Inv_C01_FedExactly
INVARIANT Inv_Prefix
PROPERTY Terminates
