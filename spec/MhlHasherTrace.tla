--------------------------- MODULE MhlHasherTrace ---------------------------
(* every line: the recorded read / update events of one real hashing run     *)
EXTENDS MhlHasher, Json, IOUtils

VARIABLE l
TraceLog == ndJsonDeserialize(IOEnv.TRACE_FILE)

\* The events are a behaviour of the loop: every read asks for the chunk size; a non-empty read is
\* followed by exactly one update per requested format with that very chunk, before the next read;
\* the loop ends with the first empty read; the chunk sizes add up to the file length.
Reads(ev)   == SelectSeq(ev, LAMBDA x : x.k = "read")
RECURSIVE SumGot(_)
SumGot(s)   == IF s = <<>> THEN 0 ELSE Head(s).got + SumGot(Tail(s))
Conforms(e) ==
  LET ev == e.events
      F  == {e.loop_fmts[i] : i \in DOMAIN e.loop_fmts}     \* verify re-hashes in the original (first) format only
      readIdx == {i \in DOMAIN ev : ev[i].k = "read"}
      nextRead(i) == IF \E j \in readIdx : j > i THEN CHOOSE j \in readIdx : j > i /\ \A j2 \in readIdx : j2 > i => j <= j2 ELSE Len(ev) + 1
  IN IF e.reads_file
     THEN /\ readIdx # {}
          /\ \A i \in readIdx :
               /\ ev[i].n = e.chunk
               /\ LET ups == {j \in (i + 1)..(nextRead(i) - 1) : TRUE}
                  IN IF ev[i].got = 0 THEN ups = {} /\ nextRead(i) = Len(ev) + 1          \* terminating read, nothing after it
                     ELSE /\ {ev[j].f : j \in ups} = F /\ Cardinality(ups) = Cardinality(F)
                          /\ \A j \in ups : ev[j].k = "update" /\ ev[j].id = ev[i].id /\ ev[j].got = ev[i].got
          /\ ev[Len(ev)].k = "read" /\ ev[Len(ev)].got = 0
          /\ SumGot(Reads(ev)) = e.len
          /\ \A i \in readIdx : ev[i].got = e.chunk \/ nextRead(i) = Len(ev) + 1 \/ ev[nextRead(i)].got = 0   \* only the last chunk is short
     ELSE IF e.ep = "stream"
     THEN \* the streaming interface: updates of the one format only, the pieces add up to the input
          /\ readIdx = {}
          /\ \A j \in DOMAIN ev : ev[j].k = "update" /\ ev[j].f \in F
          /\ SumGot(ev) = e.len
     ELSE \* hash_data: one update per format with the whole input
          /\ readIdx = {}
          /\ {ev[j].f : j \in DOMAIN ev} = F /\ Len(ev) = Cardinality(F)
          /\ \A j \in DOMAIN ev : ev[j].got = e.len
Verdict(e) ==
  [tid |-> e.tid, i |-> e.i, op |-> e.ep, exit |-> 0, kind |-> "hash",
   P_C01_Digest |-> e.digests_ok,
   M_loop |-> Conforms(e),
   A_multichunk |-> e.len > e.chunk]
TInit == l = 1 /\ len = 0 /\ req = {} /\ ep = "" /\ pos = 0 /\ chunk = <<>> /\ pending = <<>> /\ fed = <<>> /\ done = FALSE
TNext == /\ l <= Len(TraceLog) /\ PrintT(<<"V", ToJson(Verdict(TraceLog[l]))>>) /\ l' = l + 1 /\ UNCHANGED vars
TSpec == TInit /\ [][TNext]_<<l, len, req, ep, pos, chunk, pending, fed, done>>
=============================================================================
