---- MODULE MC_Commit ----
EXTENDS MhlCommit
c_Hist == <<"de", "d", "r">>
c_Prior == ("de" :> 2 @@ "d" :> 1 @@ "r" :> 0)
====
