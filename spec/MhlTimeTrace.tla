---------------------------- MODULE MhlTimeTrace ----------------------------
(* every line: one create run in one zone with a file time and a current     *)
(* time on chosen sides of the daylight-saving switches                      *)
EXTENDS MhlTime, Json, IOUtils

VARIABLE l
TraceLog == ndJsonDeserialize(IOEnv.TRACE_FILE)
\* the observed date as the specification's written value (seconds instead of abstract hours)
W(d) == [local |-> d.instant + d.offset, offset |-> d.offset]
DateOK(d) == d.wellformed /\ Denotes(W(d)) = d.true_instant /\ d.offset = d.true_offset
Verdict(e) ==
  [tid |-> e.tid, i |-> e.i, op |-> "create", exit |-> e.exit, kind |-> "time",
   P_C16_Dates |-> e.exit = 0 /\ Len(e.dates) = 3 /\ \A k \in DOMAIN e.dates : DateOK(e.dates[k]),
   \* dates copied into a packing list by a flatten that runs in another zone still denote the same instants
   P_C16_Carried |-> e.exit = 0 => (e.flat_exit = 0 /\ Len(e.flat) = 1 /\ e.flat_size = e.size /\ e.flat_fname_ok /\ \A k \in DOMAIN e.flat : e.flat[k].wellformed /\ Denotes(W(e.flat[k])) = e.flat[k].true_instant),
   P_C16_Size |-> e.exit = 0 /\ e.size_written = e.size,
   P_C16_FileNameUTC |-> e.exit = 0 /\ e.fname_ok,
   \* Layer M: the offsets written are those of mode "at_date"
   M_mode |-> e.exit = 0 /\ \A k \in DOMAIN e.dates : e.dates[k].offset = e.dates[k].true_offset,
   A_otherside |-> e.off_t # e.off_now]
TInit == l = 1 /\ z = 0 /\ t = 0 /\ now = 0 /\ size = 0
TNext == /\ l <= Len(TraceLog) /\ PrintT(<<"V", ToJson(Verdict(TraceLog[l]))>>) /\ l' = l + 1 /\ UNCHANGED <<z, t, now, size>>
TSpec == TInit /\ [][TNext]_<<l, z, t, now, size>>
=============================================================================
