------------------------------- MODULE MhlTime -------------------------------
(***************************************************************************)
(* C16.  A discretised timeline with one daylight-saving switch per zone,  *)
(* the formatter of dates (utils.datetime_isostring), and sizes.           *)
(*                                                                         *)
(* The tool holds dates as naive local times L(t) = t + Offset(z, t) and   *)
(* writes "<local time><offset>".  The written string denotes the instant  *)
(* L(t) - offset; it is right iff the offset is the one in force at t.     *)
(* Mode "at_date" takes the offset in force at the date itself (the        *)
(* repaired code), mode "at_now" the offset in force when the tool runs    *)
(* (the former code) - kept as a negative control.                         *)
(***************************************************************************)
EXTENDS Integers, Sequences, FiniteSets, TLC

CONSTANTS Instants,     \* set of integers (hours on an abstract axis)
          Zones,        \* set of [std, dst, from, to]: dst offset in force for from <= t < to
          Sizes,
          Mode          \* "at_date" | "at_now"

Offset(z, t)  == IF z.from <= t /\ t < z.to THEN z.dst ELSE z.std
Local(z, t)   == t + Offset(z, t)
\* offset a naive local time is given by the zone rules (instants are kept away from the switch hours)
OffsetOfLocal(z, loc) == IF \E t \in Instants : Local(z, t) = loc THEN Offset(z, CHOOSE t \in Instants : Local(z, t) = loc) ELSE z.std
Written(z, t, now) ==
  LET loc == Local(z, t)
      off == IF Mode = "at_now" THEN Offset(z, now) ELSE OffsetOfLocal(z, loc)
  IN [local |-> loc, offset |-> off]
Denotes(w) == w.local - w.offset

VARIABLES z, t, now, size
Init == z \in Zones /\ t \in Instants /\ now \in Instants /\ size \in Sizes
Next == UNCHANGED <<z, t, now, size>>
Spec == Init /\ [][Next]_<<z, t, now, size>>

\* Layer P on an emitted date: right instant, offset in force at that instant
P_Date(zone, instant, w) == Denotes(w) = instant /\ w.offset = Offset(zone, instant)
Inv_C16_FileDate == P_Date(z, t, Written(z, t, now))          \* last modification date of a file
Inv_C16_NowDate  == P_Date(z, now, Written(z, now, now))      \* hash date, creation date
Inv_C16_Size     == size \in Sizes                             \* sizes are written as they are (bound on real runs)
=============================================================================
