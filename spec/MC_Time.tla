---- MODULE MC_Time ----
EXTENDS MhlTime
c_Instants == {0, 100, 200, 300, 400, 500}
c_Zones == {[std |-> 0, dst |-> 0, from |-> 0, to |-> 0],          \* UTC
            [std |-> 5, dst |-> 5, from |-> 0, to |-> 0],          \* fixed positive
            [std |-> -8, dst |-> -8, from |-> 0, to |-> 0],        \* fixed negative
            [std |-> 1, dst |-> 2, from |-> 150, to |-> 350],      \* northern DST
            [std |-> 10, dst |-> 11, from |-> -1000, to |-> 150],  \* southern DST, first part
            [std |-> 10, dst |-> 11, from |-> 350, to |-> 1000],   \* southern DST, second part
            [std |-> -4, dst |-> -3, from |-> 150, to |-> 350]}    \* negative offsets with DST
c_Sizes == {0, 1, 1048577}
====
