SPECIFICATION Spec
CONSTANTS
 Servers = {"ok", "http_error", "conn_error", "bad_json", "no_tag", "bad_version", "other_exception", "hang"}
 Versions = {"newer", "equal", "older", "pre", "dev", "garbage", "missing"}
 ExitCodes = {0, 11, 30}
INVARIANT Inv_ExitCode
INVARIANT Inv_Stdout
INVARIANT Inv_NoticeOnlyIfNewer
INVARIANT Inv_BoundedDelay
PROPERTY Terminates
