------------------------------ MODULE MhlUpdater ------------------------------
(***************************************************************************)
(* C20.  The background update check (cli/update.py) and the two CLI       *)
(* groups that join it after a command (cli/ascmhl.py, ascmhl_debug.py).   *)
(*                                                                         *)
(* Checker thread (daemon, started at import):                             *)
(*   request -> one of the server behaviours; a RequestException is        *)
(*   swallowed (finished := TRUE); any other exception kills the thread;   *)
(*   a good answer sets latest := parsed version, then finished := TRUE.   *)
(* Main thread: runs the command (exit code e, output o).  When the        *)
(*   command returns normally the result callback joins the checker with a *)
(*   timeout of one second, reads needs_update and may print one notice.   *)
(*   When the command raises (click error, exit e # 0) the callback is     *)
(*   skipped.  The checker is a daemon thread: exit never waits for it.    *)
(* The join is modelled as "checker done OR timer fired", two              *)
(* independently enabled steps, so TLC explores the race.                  *)
(***************************************************************************)
EXTENDS Integers, Sequences, FiniteSets, TLC

CONSTANTS Servers,      \* server behaviours
          Versions,     \* version classes the server may report
          ExitCodes     \* exit codes a command may end with

\* server behaviours: what the request does
\*  "ok" answers with a version; "http_error", "conn_error" raise RequestException subclasses;
\*  "bad_json", "no_tag", "bad_version", "other_exception" raise something else; "hang" never returns
Swallowed == {"http_error", "conn_error"}
Kills     == {"bad_json", "no_tag", "bad_version", "other_exception"}
Newer(v)  == v = "newer"                       \* newer, and neither a dev nor a pre-release

VARIABLES server, version, cmdexit,           \* the environment's choices
          cpc, latest, finished, alive,       \* checker: program counter, Updater.latest_version, .finished, thread alive
          mpc, stdout, exitcode, timer, waited
vars == <<server, version, cmdexit, cpc, latest, finished, alive, mpc, stdout, exitcode, timer, waited>>

Init ==
  /\ server \in Servers /\ version \in Versions /\ cmdexit \in ExitCodes
  /\ cpc = "request" /\ latest = "none" /\ finished = FALSE /\ alive = TRUE
  /\ mpc = "command" /\ stdout = <<>> /\ exitcode = -1 /\ timer = "off" /\ waited = 0

(* ------------------------------- checker ------------------------------- *)
Respond ==          \* the request returns or raises; "hang" never does
  /\ cpc = "request" /\ server # "hang"
  /\ IF server = "ok" THEN cpc' = "parse" /\ UNCHANGED <<finished, alive>>
     ELSE IF server \in Swallowed THEN cpc' = "done" /\ finished' = TRUE /\ alive' = FALSE      \* except RequestException
     ELSE cpc' = "dead" /\ alive' = FALSE /\ UNCHANGED finished                                 \* thread dies, finished stays FALSE
  /\ UNCHANGED <<server, version, cmdexit, latest, mpc, stdout, exitcode, timer, waited>>
Parse ==
  /\ cpc = "parse"
  /\ IF version \in {"garbage", "missing"}
     THEN cpc' = "dead" /\ alive' = FALSE /\ UNCHANGED <<latest, finished>>                     \* InvalidVersion / TypeError
     ELSE latest' = version /\ cpc' = "finish" /\ UNCHANGED <<finished, alive>>
  /\ UNCHANGED <<server, version, cmdexit, mpc, stdout, exitcode, timer, waited>>
Finish ==
  /\ cpc = "finish" /\ finished' = TRUE /\ alive' = FALSE /\ cpc' = "done"
  /\ UNCHANGED <<server, version, cmdexit, latest, mpc, stdout, exitcode, timer, waited>>
Checker == Respond \/ Parse \/ Finish

(* -------------------------------- main --------------------------------- *)
RunCommand ==
  /\ mpc = "command"
  /\ stdout' = <<"command output">>
  /\ IF cmdexit = 0 THEN mpc' = "join" /\ timer' = "running" /\ UNCHANGED exitcode    \* result callback: updater.join(timeout=1)
     ELSE mpc' = "exit" /\ exitcode' = cmdexit /\ UNCHANGED timer                     \* click error: callback skipped
  /\ UNCHANGED <<server, version, cmdexit, cpc, latest, finished, alive, waited>>
JoinReturns ==       \* the checker thread has ended
  /\ mpc = "join" /\ ~alive /\ mpc' = "notice"
  /\ UNCHANGED <<server, version, cmdexit, cpc, latest, finished, alive, stdout, exitcode, timer, waited>>
TimerFires ==        \* one second is over
  /\ mpc = "join" /\ timer = "running" /\ timer' = "fired" /\ waited' = waited + 1 /\ mpc' = "notice"
  /\ UNCHANGED <<server, version, cmdexit, cpc, latest, finished, alive, stdout, exitcode>>
Notice ==            \* needs_update is read once, now
  /\ mpc = "notice"
  /\ stdout' = IF Newer(latest) THEN Append(stdout, "update notice") ELSE stdout
  /\ mpc' = "exit" /\ exitcode' = cmdexit
  /\ UNCHANGED <<server, version, cmdexit, cpc, latest, finished, alive, timer, waited>>
Main == RunCommand \/ JoinReturns \/ TimerFires \/ Notice

Terminated == mpc = "exit"
Next == Checker \/ Main \/ (Terminated /\ UNCHANGED vars)
\* fairness for the main thread only: the checker may hang, be slow, or never be scheduled again
Spec == Init /\ [][Next]_vars /\ WF_vars(Main)

(***************************************************************************)
(* C20                                                                     *)
(***************************************************************************)
Inv_ExitCode == Terminated => exitcode = cmdexit
Inv_Stdout   == Terminated => stdout \in {<<"command output">>, <<"command output", "update notice">>}
Inv_NoticeOnlyIfNewer ==
  (Terminated /\ Len(stdout) = 2) => (server = "ok" /\ version = "newer" /\ cmdexit = 0)
Inv_BoundedDelay == waited <= 1
\* whatever the server does, the command terminates
Terminates == <>Terminated
\* (not required, but true of the design: if the answer was there before the join, the notice appears)
Inv_NoticeIfInTime ==
  (Terminated /\ cmdexit = 0 /\ latest = "newer" /\ timer # "fired") => Len(stdout) = 2 \/ cpc = "finish" \/ cpc = "done"
=============================================================================
