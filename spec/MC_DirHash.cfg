SPECIFICATION Spec
CONSTANTS
 Fmts <- c_Fmts
 PatNames <- c_PatNames
 FilePaths <- c_FilePaths
 DirPaths <- c_DirPaths
 Contents <- c_Contents
INVARIANT Inv_Edit
INVARIANT Inv_Rename
INVARIANT Inv_AddRemove
INVARIANT Inv_Empty
INVARIANT Inv_SigEquiv
