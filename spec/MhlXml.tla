------------------------------- MODULE MhlXml -------------------------------
(***************************************************************************)
(* C10 / C11.  Abstract manifest and chain documents, the element trees    *)
(* the writers emit for them (hashlist_xml_parser.write_hash_list,         *)
(* chain_xml_parser.write_chain), the content models of the published      *)
(* schemas (xsd/ASCMHL.xsd, xsd/ASCMHLDirectory.xsd) transcribed as        *)
(* occurrence-bounded sequences, and the readers' view of an emitted tree. *)
(*                                                                         *)
(* A document is a record of presence flags, counts and format sequences;  *)
(* text is abstracted away (character-level fidelity is decided by the     *)
(* replay, see DESIGN.md section 8).  An element is <<name, children>>.    *)
(***************************************************************************)
EXTENDS Integers, Sequences, FiniteSets, TLC, Json

CONSTANTS Fmts        \* sequence of format names, alphabetical (the order the schema prescribes)

El(n, kids) == <<n, kids>>
Leaf(n)     == <<n, <<>>>>
FmtIdx(f)   == CHOOSE i \in DOMAIN Fmts : Fmts[i] = f
IsSortedUnique(s) == \A i, j \in DOMAIN s : i < j => FmtIdx(s[i]) < FmtIdx(s[j])

(***************************************************************************)
(* Writer (Layer M)                                                        *)
(***************************************************************************)
\* <hash>: path, one element per entry in alphabetical order (sorted() keeps duplicates), previousPath?
EmitHash(r) ==
  El("hash", <<Leaf("path")>> \o [i \in DOMAIN r.fmts |-> Leaf(r.fmts[i])]
             \o (IF r.prev THEN <<Leaf("previousPath")>> ELSE <<>>))
Container(n, fmts) == El(n, [i \in DOMAIN fmts |-> Leaf(fmts[i])])
EmitDir(r) ==
  El("directoryhash", <<Leaf("path"), Container("content", r.fmts), Container("structure", r.fmts)>>
             \o (IF r.prev THEN <<Leaf("previousPath")>> ELSE <<>>))
EmitRec(r) == IF r.kind = "file" THEN EmitHash(r) ELSE EmitDir(r)
EmitManifest(d) ==
  El("hashlist",
     << El("creatorinfo", <<Leaf("creationdate"), Leaf("hostname"), Leaf("tool")>>
                           \o [i \in 1..d.authors |-> Leaf("author")]
                           \o (IF d.location THEN <<Leaf("location")>> ELSE <<>>)
                           \o (IF d.comment THEN <<Leaf("comment")>> ELSE <<>>)),
        El("processinfo", <<Leaf("process")>>
                           \o (IF d.root # <<>> THEN <<El("roothash", <<Container("content", d.root), Container("structure", d.root)>>)>> ELSE <<>>)
                           \o <<El("ignore", [i \in 1..d.npats |-> Leaf("pattern")])>>) >>
     \o (IF d.recs # <<>> THEN <<El("hashes", [i \in DOMAIN d.recs |-> EmitRec(d.recs[i])])>> ELSE <<>>)
     \o (IF d.nrefs > 0 THEN <<El("references", [i \in 1..d.nrefs |-> El("hashlistreference", <<Leaf("path"), Leaf("c4")>>)])>> ELSE <<>>))
EmitChain(n) ==
  El("ascmhldirectory", [i \in 1..n |-> El("hashlist", <<Leaf("path"), Leaf("c4")>>)])

(***************************************************************************)
(* Schema: a content model is a sequence of particles [n, min, max]        *)
(* (max = -1: unbounded); every model of the two schemas is deterministic, *)
(* so greedy matching decides membership.                                  *)
(***************************************************************************)
P(n, mn, mx) == [n |-> n, min |-> mn, max |-> mx]
Names(kids) == [i \in DOMAIN kids |-> kids[i][1]]
MatchSeq(names, model) ==
  LET RECURSIVE M(_, _, _)        \* position in names, particle index, occurrences of that particle so far
      M(i, k, c) ==
        IF k > Len(model) THEN i > Len(names)
        ELSE LET p == model[k] IN
             IF i <= Len(names) /\ names[i] = p.n /\ (p.max = -1 \/ c < p.max)
             THEN M(i + 1, k, c + 1)
             ELSE c >= p.min /\ M(i, k + 1, 0)
  IN M(1, 1, 0)
FmtParticles == [i \in DOMAIN Fmts |-> P(Fmts[i], 0, 1)]
ModelOf(n, parent) ==
  CASE n = "hashlist" /\ parent = "" -> <<P("creatorinfo", 1, 1), P("processinfo", 1, 1), P("hashes", 0, 1), P("metadata", 0, 1), P("references", 0, 1)>>
    [] n = "creatorinfo"  -> <<P("creationdate", 1, 1), P("hostname", 1, 1), P("tool", 1, 1), P("author", 0, -1), P("location", 0, 1), P("comment", 0, 1)>>
    [] n = "processinfo"  -> <<P("process", 1, 1), P("roothash", 0, 1), P("ignore", 0, 1)>>
    [] n = "ignore"       -> <<P("pattern", 1, -1)>>
    [] n = "roothash"     -> <<P("content", 1, 1), P("structure", 1, 1)>>
    [] n \in {"content", "structure"} -> FmtParticles
    [] n = "hash"         -> <<P("path", 1, 1)>> \o FmtParticles \o <<P("previousPath", 0, 1), P("metadata", 0, 1)>>
    [] n = "directoryhash" -> <<P("path", 1, 1), P("content", 1, 1), P("structure", 1, 1), P("previousPath", 0, 1), P("metadata", 0, 1)>>
    [] n = "references"   -> <<P("hashlistreference", 1, -1)>>
    [] n = "hashlistreference" -> <<P("path", 1, 1), P("c4", 1, 1)>>
    [] n = "ascmhldirectory" -> <<P("hashlist", 0, -1)>>
    [] n = "hashlist" /\ parent = "ascmhldirectory" -> <<P("path", 1, 1), P("c4", 1, 1)>>
    [] OTHER -> <<>>                                            \* simple content: no child elements
RECURSIVE Valid(_, _)
Valid(e, parent) ==
  /\ IF e[1] = "hashes"                                         \* <choice minOccurs=1 maxOccurs=unbounded>
     THEN Len(e[2]) >= 1 /\ \A i \in DOMAIN e[2] : e[2][i][1] \in {"hash", "directoryhash"}
     ELSE MatchSeq(Names(e[2]), ModelOf(e[1], parent))
  /\ \A i \in DOMAIN e[2] : Valid(e[2][i], e[1])

(***************************************************************************)
(* Reader (hashlist_xml_parser.parse): what is recovered from an emitted   *)
(* tree, compared with the document it was emitted from (C10, structure)   *)
(***************************************************************************)
Kid(e, n)  == LET S == {i \in DOMAIN e[2] : e[2][i][1] = n} IN IF S = {} THEN <<>> ELSE <<e[2][CHOOSE i \in S : \A j \in S : i <= j]>>
Count(e, n) == Cardinality({i \in DOMAIN e[2] : e[2][i][1] = n})
FmtsIn(e)  == SelectSeq(Names(e[2]), LAMBDA x : \E i \in DOMAIN Fmts : Fmts[i] = x)
ReadRec(e) ==
  IF e[1] = "hash" THEN [kind |-> "file", fmts |-> FmtsIn(e), prev |-> Count(e, "previousPath") > 0]
  ELSE [kind |-> "dir", fmts |-> FmtsIn(Kid(e, "content")[1]), prev |-> Count(e, "previousPath") > 0]
ReadManifest(e) ==
  LET ci == Kid(e, "creatorinfo")[1]
      pi == Kid(e, "processinfo")[1]
      hs == Kid(e, "hashes")
      rf == Kid(e, "references")
      rh == Kid(pi, "roothash")
  IN [authors |-> Count(ci, "author"), location |-> Count(ci, "location") > 0, comment |-> Count(ci, "comment") > 0,
      root |-> IF rh = <<>> THEN <<>> ELSE FmtsIn(Kid(rh[1], "content")[1]),
      npats |-> IF Kid(pi, "ignore") = <<>> THEN 0 ELSE Count(Kid(pi, "ignore")[1], "pattern"),
      recs |-> IF hs = <<>> THEN <<>> ELSE [i \in DOMAIN hs[1][2] |-> ReadRec(hs[1][2][i])],
      nrefs |-> IF rf = <<>> THEN 0 ELSE Count(rf[1], "hashlistreference")]

(***************************************************************************)
(* Document shapes the commands can produce (the arguments of the other    *)
(* specifications' actions): formats of a record are requested formats in  *)
(* alphabetical order without repetition; a generation without directory   *)
(* hashes has no root hash; at least the default patterns are present.     *)
(***************************************************************************)
CONSTANTS FmtSeqs,      \* set of format sequences a record / the root hash may carry (sorted, duplicate free)
          MaxRecs, MaxRefs, MaxAuthors, MaxPats

RecShapes == {[kind |-> "file", fmts |-> f, prev |-> p] : f \in FmtSeqs \ {<<>>}, p \in BOOLEAN}
             \cup {[kind |-> "dir", fmts |-> f, prev |-> p] : f \in FmtSeqs, p \in BOOLEAN}
RecSeqs == UNION {[1..n -> RecShapes] : n \in 0..MaxRecs}
Docs == [authors : 0..MaxAuthors, location : BOOLEAN, comment : BOOLEAN, root : FmtSeqs,
         npats : 1..MaxPats, recs : RecSeqs, nrefs : 0..MaxRefs]

\* two steps so that TLC spreads the enumeration over its workers: first the header shape, then the records
VARIABLE doc
Heads == [authors : 0..MaxAuthors, location : BOOLEAN, comment : BOOLEAN, nrefs : 0..MaxRefs, npats : 1..MaxPats]
Init == \E h \in Heads : doc = [h EXCEPT !.npats = h.npats] @@ [stage |-> 1]
Next == /\ doc.stage = 1
        /\ \E r \in FmtSeqs, rs \in RecSeqs :
              doc' = [authors |-> doc.authors, location |-> doc.location, comment |-> doc.comment, root |-> r,
                      npats |-> doc.npats, recs |-> rs, nrefs |-> doc.nrefs, stage |-> 2]
Spec == Init /\ [][Next]_doc
D == [authors |-> doc.authors, location |-> doc.location, comment |-> doc.comment, root |-> doc.root,
      npats |-> doc.npats, recs |-> doc.recs, nrefs |-> doc.nrefs]
Full == doc.stage = 2
Export == Full => PrintT(<<"BEH", ToJson(D)>>)

Inv_C11_ManifestValid == Full => Valid(EmitManifest(D), "")
Inv_C10_RoundTrip     == Full => ReadManifest(EmitManifest(D)) = D
Inv_C11_ChainValid    == \A n \in 0..4 : Valid(EmitChain(n), "")
\* negative controls: what the schema must reject (guards the automaton against accepting everything)
Inv_Neg_EmptyHashes   == Full => ~Valid(El("hashlist", <<EmitManifest(D)[2][1], EmitManifest(D)[2][2], El("hashes", <<>>)>>), "")
Inv_Neg_DupFormat     == \A f \in DOMAIN Fmts : ~Valid(EmitHash([kind |-> "file", fmts |-> <<Fmts[f], Fmts[f]>>, prev |-> FALSE]), "hashes")
Inv_Neg_Unsorted      == Len(Fmts) >= 2 => ~Valid(EmitHash([kind |-> "file", fmts |-> <<Fmts[2], Fmts[1]>>, prev |-> FALSE]), "hashes")
=============================================================================
