SPECIFICATION Spec
CONSTANTS
 Fmts <- c_Fmts
 FmtSeqs <- c_FmtSeqs
 MaxRecs = 2
 MaxRefs = 2
 MaxAuthors = 2
 MaxPats = 2
INVARIANT Inv_C11_ManifestValid
INVARIANT Inv_C10_RoundTrip
INVARIANT Inv_C11_ChainValid
INVARIANT Inv_Neg_EmptyHashes
INVARIANT Inv_Neg_DupFormat
INVARIANT Inv_Neg_Unsorted
