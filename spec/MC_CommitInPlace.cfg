SPECIFICATION Spec
CONSTANTS
 Hist <- c_Hist
 Prior <- c_Prior
 W = 3
 Atomic = FALSE
INVARIANT Inv_ChainLists
INVARIANT Inv_Loadable
INVARIANT Inv_AllOrNothing
INVARIANT Inv_ChildFirst
INVARIANT Inv_Completes
