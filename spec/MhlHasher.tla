------------------------------ MODULE MhlHasher ------------------------------
(***************************************************************************)
(* C01.  The chunked read loop and the fan-out to several hashers          *)
(* (hasher.Hasher.hash_file, AggregateHasher.hash_file, hash_data), with a *)
(* scaled chunk size K, and the C4 text codec at a reduced radix.          *)
(*                                                                         *)
(* A file is the sequence 1..len of distinct "bytes"; a hasher is the      *)
(* sequence of bytes it was fed.  The digest of a hasher is a function of  *)
(* that sequence only (the algorithms themselves are trusted library       *)
(* code), so the property is: when the loop ends every requested hasher    *)
(* was fed exactly the file, once, in order - whatever the length, the     *)
(* chunk size, the set of formats and the entry point.                     *)
(***************************************************************************)
EXTENDS Integers, Sequences, FiniteSets, TLC

CONSTANTS K, MaxLen, Hashers

VARIABLES len, req, ep, pos, chunk, pending, fed, done
vars == <<len, req, ep, pos, chunk, pending, fed, done>>
File(n) == [i \in 1..n |-> i]
Min2(a, b) == IF a < b THEN a ELSE b
SetToSeq(S) == LET RECURSIVE G(_) G(T) == IF T = {} THEN <<>> ELSE LET x == CHOOSE y \in T : TRUE IN <<x>> \o G(T \ {x}) IN G(S)

Init ==
  /\ len \in 0..MaxLen /\ req \in (SUBSET Hashers) \ {{}}
  /\ ep \in {"single", "aggregate", "data"}
  /\ (ep = "single" => Cardinality(req) = 1)
  /\ pos = 0 /\ chunk = <<>> /\ pending = <<>> /\ done = FALSE
  /\ fed = [h \in req |-> <<>>]
\* fd.read(size): up to K bytes, empty at end of file
Read ==
  /\ ~done /\ pending = <<>> /\ ep # "data"
  /\ LET c == SubSeq(File(len), pos + 1, Min2(pos + K, len))
     IN /\ chunk' = c /\ pos' = pos + Len(c)
        /\ IF c = <<>> THEN done' = TRUE /\ pending' = <<>>      \* `while chunk:` ends the loop
           ELSE done' = FALSE /\ pending' = SetToSeq(req)        \* every hasher gets this chunk
  /\ UNCHANGED <<len, req, ep, fed>>
Update ==
  /\ pending # <<>>
  /\ fed' = [fed EXCEPT ![Head(pending)] = @ \o chunk]
  /\ pending' = Tail(pending)
  /\ UNCHANGED <<len, req, ep, pos, chunk, done>>
\* hash_data: one update with the whole input per hasher
Data ==
  /\ ep = "data" /\ ~done /\ pending = <<>> /\ pos = 0
  /\ chunk' = File(len) /\ pos' = len /\ pending' = SetToSeq(req) /\ done' = TRUE
  /\ UNCHANGED <<len, req, ep, fed>>
Finished == done /\ pending = <<>>
Work == Read \/ Update \/ Data
Next == Work \/ (Finished /\ UNCHANGED vars)
Spec == Init /\ [][Next]_vars /\ WF_vars(Work)

Inv_C01_FedExactly == Finished => \A h \in req : fed[h] = File(len)
Inv_Prefix  == \A h \in req : \E n \in 0..len : fed[h] = File(n)            \* never out of order, never twice
Terminates  == <>Finished

(***************************************************************************)
(* C4 text codec at radix B, width Wd (the code: 58 and 88): most          *)
(* significant digit first, left-padded with the zero digit.               *)
(***************************************************************************)
CONSTANTS B, Wd
RECURSIVE Pow(_, _)
Pow(b, e) == IF e = 0 THEN 1 ELSE b * Pow(b, e - 1)
RECURSIVE Digits(_)
Digits(v) == IF v = 0 THEN <<>> ELSE Digits(v \div B) \o <<v % B>>      \* the while-loop of string_digest
Pad(s)    == [i \in 1..(Wd - Len(s)) |-> 0] \o s                         \* rjust(width, zero)
Encode(v) == Pad(Digits(v))
Decode(s) == LET RECURSIVE D(_, _) D(i, acc) == IF i > Len(s) THEN acc ELSE D(i + 1, acc * B + s[i]) IN D(1, 0)
Values == 0..(Pow(B, Wd) - 1)
LexLess(a, b) == \E i \in 1..Wd : a[i] < b[i] /\ \A j \in 1..(i - 1) : a[j] = b[j]
ASSUME Codec_FixedWidth == \A v \in Values : Len(Encode(v)) = Wd /\ \A i \in 1..Wd : Encode(v)[i] \in 0..(B - 1)
ASSUME Codec_RoundTrip  == \A v \in Values : Decode(Encode(v)) = v
ASSUME Codec_Injective  == \A v, w \in Values : v # w => Encode(v) # Encode(w)
\* text order = numeric order: sorting digest strings (directory hashes) is sorting the values
ASSUME Codec_OrderPreserving == \A v, w \in Values : v < w <=> LexLess(Encode(v), Encode(w))
=============================================================================
