"""Static descriptions of the registered checks (MANIFEST.json is generated from this by bin/genmanifest)."""

HIST_NOTE = (
    "Trusted: TLC 1.8 + CommunityModules, CPython, the projection (harness/project.py, ElementTree) and the reference "
    "evaluator (harness/oracle.py), lxml's XSD validator, pathspec as the meaning of 'matched'. Assumes digest collision "
    "freedom. Bounded: the model is checked exhaustively only in small scopes (see evidence model_runs); behaviours "
    "beyond them are random walks of the model replayed on the real code."
)
HIST_TECH = "TLA+ model (MhlHistory/MhlHistoryMC) checked with TLC; TLC-exported behaviours replayed on the real code; recorded steps validated against the spec (MhlHistoryTrace)"


def hist(text):
    return dict(level="model_checking", text=text, note=HIST_NOTE, technique=HIST_TECH)


CHECKS = {
    "C02": hist("TLC checks on the mechanism model that the generations a create writes hold exactly the non-ignored tree (all scopes: tree / nested / ignore); every exported behaviour is executed on the real code and each step's new manifests, read independently, must satisfy the same predicates (record set, relative POSIX paths, digest per requested format, -sf selection)."),
    "C03": hist("Exit codes and reported paths of create / verify / diff are predicted by the model for every sealed tree x mutation in scope and the no-false-alarm / detection predicates are invariants of the model; on the real code every replayed step is judged with the same predicates (unchanged-since-sealed ghost carried by the trace spec)."),
    "C04": hist("All format sequences over <= 3 generations x content kept/altered/restored are enumerated by TLC (scope fmt3, exhaustive), the original/verified/failed/new rules are invariants and an action property (first recorded digest never changes); every one of those behaviours is replayed on the real code and judged per step; nested and -sf variants by random walks."),
    "C06": hist("Append-only / gap-free numbering are an action property and invariants of the model; on real executions every create step is checked at byte level: earlier manifests identical, chain prefix preserved, exactly one new entry whose number, name and C4 match the new file, names NNNN_<folder>_<UTC>Z.mhl, also with several runs in one clock second."),
    "C08": hist("Routing to the deepest history, child root copied into the parent, reference sets and the set of histories that write are invariants of the model over all nested layouts in scope (root > d > d/e, sibling d2); replayed steps are judged with the same predicates plus byte-level reference digests and the audit-hook order child manifest < child chain < parent manifest."),
    "C07": hist("MhlDirHash.tla states the compositional definition on Merkle terms over an injective abstract hash and TLC checks, for all trees of a small universe and all single mutations (edit, add, remove, rename of files and folders), the sensitivity relations of the statement and the equivalence with the snapshot signatures used by the core model; on the real code every recorded directory / root hash in all six formats must equal the independent reference evaluator over the non-ignored entries, recorded hashes of successive generations must be equal exactly when the model's signatures are, and verify -dh -co output is judged the same way."),
    "C09": hist("verify -dh is modelled (formats computed, per-directory comparison with every recorded generation, per-format exit rule) and the identical=>0 / changed=>12 / no-internal-error predicates are invariants over sealed trees x single mutations x -n generations x nested histories with differing formats; every replayed verify -dh is judged against generations whose recorded snapshots are known. One open known finding (F4b)."),
    "C12": hist("Pattern accumulation (prefix-preserving, duplicate-free, parent patterns in nested generations) and exclusion (not recorded, not reported, not in directory hashes) are invariants of the model over base-name / glob / directory-name patterns, flat and nested; replayed steps are judged with 'matched' decided by pathspec on the root-relative path and directory hashes by the reference evaluator."),
    "C13": dict(level="model_checking", text="The mechanism model has no notion of absolute location, argument spelling or enumeration order (its operators take root-relative arguments only), so every real execution of one behaviour must be observationally identical across environments: each TLC-exported behaviour is executed under six environments (ancestors named 'ascmhl' / '.DS_Store' / matching user patterns, deep and shallow mounts, five root spellings, permuted os.listdir/os.scandir) and MhlEnv.tla judges every step group: byte-identical ascmhl folders, equal exit codes and reported paths, and verify = 0 on copies of every successfully sealed tree.", note=HIST_NOTE + " mtimes are pinned before each command.", technique="TLC-exported behaviours replayed under several environment concretisations; grouped observations validated by the TLA+ module MhlEnv (metamorphic conformance)"),
    "C14": hist("Frame conditions: in the model every command leaves the tree untouched and only create/create -sf extend histories; on the real code every command of every campaign is bracketed by complete file-system snapshots (type, SHA-256, size, mtime_ns, mode) and an audit hook that sees every mutating call, and the delta / call list must be within what the model allows for that operation."),
    "C17": hist("Rename detection is part of the mechanism model (matching of not-found recorded paths with new files by first recorded digest, previous path, rename map followed over generations); TLC checks the C17 predicates over all rename / move sets in scope incl. rename chains and moves into new directories; replayed create -dr / verify / diff steps are judged with the same predicates. One open known finding (F17, recorded under C03)."),
    "C18": hist("The flatten merge rule (earliest non-failed digest per path and format, no directory records, process flatten) and verify -pl outcomes are invariants of the model over flat histories with changing formats, failed entries and partial -sf generations; replayed flatten / verify -pl steps are judged on the independently read packing list."),
    "C19": hist("The info listing (every nested history, generations ascending with creation dates) and the info -sf lines (generation, format, digest, action per recorded entry in the nearest enclosing history) are defined by spec operators; parsed real output must equal them for every history reached."),
}

NOT_APPLICABLE = {}

ENGINES = [
    {"name": "tlc+replay", "path": "harness/", "serves_properties": sorted(CHECKS), "kind_free_text": "TLC model checking of spec/*.tla + behaviours exported by TLC replayed on the real code + TLC trace validation of the recorded steps"},
]

NOTES = (
    "bin/check <ID> [--tier quick|thorough] [--replay FILE]; exit 0 = held, 1 = VIOLATION line(s), 2 = machinery failure. "
    "known_findings.json lists genuine defects (fixed ones suppress nothing). See DESIGN.md."
)
