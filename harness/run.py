"""Execute abstract behaviours (sequences of operations) against the real code and record traces.

A behaviour is {"tid": str, "world": {...}, "init": [...env ops...], "ops": [...]}; the result
is a list of trace lines (one per *command*; environment operations only change the next
line's pre-state).  See trace.schema.json.
"""
import json
import os
import re
import sys
import traceback
from multiprocessing import Pool

from . import world as W
from . import project as PJ

import ascmhl.commands as C

DEFAULT_PATTERNS = [".DS_Store", "ascmhl", "ascmhl/"]


def _lit(name):
    """a name as a literal gitwildmatch pattern (the backslash is the pattern language's escape character)"""
    return name.replace("\\", "\\\\")


def concrete_pattern(world, pat):
    """abstract pattern string -> concrete gitwildmatch line"""
    if pat.startswith("n:"):
        return _lit(world.names[pat[2:]])
    if pat.startswith("!n:"):
        return "!" + _lit(world.names[pat[3:]])
    if pat == "g:tmp":
        return "*.tmp"
    if pat.startswith("a:"):  # anchored path pattern
        return "/".join(_lit(world.names[a]) for a in pat[2:].split("/"))
    if pat.startswith("d:"):  # directory pattern with trailing slash
        return _lit(world.names[pat[2:]]) + "/"
    return pat


def abstract_pattern(world, conc):
    if conc in DEFAULT_PATTERNS:
        return conc
    conc = conc.replace("\\\\", "\\")      # undo _lit
    if conc == "*.tmp":
        return "g:tmp"
    if conc.endswith("/") and conc[:-1] in world.rnames:
        return "d:" + world.rnames[conc[:-1]]
    if conc in world.rnames:
        return "n:" + world.rnames[conc]
    if conc.startswith("!") and conc[1:] in world.rnames:
        return "!n:" + world.rnames[conc[1:]]
    if "/" in conc and all(c in world.rnames for c in conc.split("/")):
        return "a:" + "/".join(world.rnames[c] for c in conc.split("/"))
    return "?:" + conc


class Runner:
    def __init__(self, spec):
        ws = spec.get("world", {})
        self.tid = spec["tid"]
        self.spec = spec
        self.w = W.World(
            [tuple(p) for p in ws["files"]],
            [tuple(p) for p in ws["dirs"]],
            name_class=ws.get("names", "plain"),
            location=ws.get("location", "plain"),
            salt=ws.get("salt", ""),
            seed=ws.get("seed", 0),
        )
        self.w.listing_perm = ws.get("listing")
        self.spelling = ws.get("spelling", "abs")
        self.sfspell = ws.get("sfspell", "abs")
        self.w.tzoff = ws.get("tzoff", 0)
        self.pj = PJ.Projector(self.w)
        for cid in ws.get("contents", ["c1", "c2", "c3", "EMPTY"]):
            self.w.bytes_of(cid)
        self.lines = []
        self.sealed = {}  # abstract root tuple -> disk list at last exit-0 folder-mode create
        self.flat_manifest = None
        self.flat_src = None
        self.i = 0
        self.patfiles = 0
        self.geninfo = {}  # manifest path -> (croot, ceff abstract)
        self.reread = {}  # manifest path -> list of differences between the tool's reader and the independent reader

    # -- environment ops ---------------------------------------------------------------
    def env(self, op):
        w = self.w
        k = op["op"]
        if k in ("alter", "add"):
            w.write_file(tuple(op["p"]), op["c"])
        elif k == "mkdir":
            w.mkdir(tuple(op["p"]))
        elif k == "delete":
            w.delete(tuple(op["p"]))
        elif k == "rename":
            w.rename(tuple(op["p"]), tuple(op["q"]))
        elif k == "touch":
            p = w.cpath(tuple(op["p"]))
            os.utime(p, (W.PIN_MTIME + 777, W.PIN_MTIME + 777))
        elif k == "tick":
            w.tick(op.get("dt", 1))
        else:
            raise ValueError(k)

    ENV_OPS = {"alter", "add", "mkdir", "delete", "rename", "touch", "tick"}

    # -- commands ---------------------------------------------------------------------------
    def root_arg(self, R):
        p = self.w.cpath(tuple(R))
        if self.spelling == "slash":
            return p + "/", None
        if self.spelling == "rel":
            parent = os.path.dirname(p)
            return os.path.basename(p), parent
        if self.spelling == "dot":
            return ".", p
        if self.spelling == "dotrel":
            parent = os.path.dirname(p)
            return "./" + os.path.basename(p), parent
        return p, None

    def sf_arg(self, apath, R, cwd, relative_to_root=False):
        """spelling of a -sf argument -> (argument, cwd).  All spellings denote the same file:
        abs: clean absolute path;  dotseg: ROOT/./rel;  dslash: dir//name;  updown: dir/../dir/name;
        rel: relative ('./rel' against the working directory for create and info, 'rel' against the root for verify)"""
        w = self.w
        p = w.cpath(tuple(apath))
        root = w.cpath(tuple(R)) if R is not None else os.path.dirname(p)
        rel = os.path.relpath(p, root)
        mode = self.sfspell
        if mode == "dotseg" and rel != ".":
            return root + "/./" + rel, cwd
        if mode == "dslash":
            return os.path.dirname(p) + "//" + os.path.basename(p), cwd
        if mode == "updown":
            d = os.path.dirname(p)
            return d + "/../" + os.path.basename(d) + "/" + os.path.basename(p), cwd
        if mode == "rel" and rel != ".":
            if relative_to_root:
                return rel, cwd
            base = cwd or root
            return "./" + os.path.relpath(p, base), base
        return p, cwd

    def build(self, op):
        """-> (click command, args, cwd)"""
        w = self.w
        k = op["op"]
        cwd = None
        if k in ("create", "createsf", "verify", "verifysf", "verifydh", "verifypl", "diff", "flatten", "info"):
            rootarg, cwd = self.root_arg(op["R"])
        args = []
        if k == "create":
            args = [rootarg]
            for f in op["F"]:
                args += ["-h", f]
            if op.get("hdup"):   # repeated -h
                args += ["-h", op["F"][0]]
            if op.get("n"):
                args.append("-n")
            if op.get("dr"):
                args.append("-dr")
            for p in list(op.get("P", [])) + (list(op.get("P", []))[:1] if op.get("pdup") else []):
                args += ["-i", concrete_pattern(w, p)]
            if op.get("PF"):
                self.patfiles += 1
                pf = w.aux_path("patterns-%d.txt" % self.patfiles)
                with open(pf, "w") as fh:
                    fh.write("".join(concrete_pattern(w, p) + "\n" for p in list(op["PF"]) + (list(op["PF"])[:1] if op.get("pdup") else [])))
                args += ["-ii", pf]
            for key, opt in (("author", "--author_name"), ("email", "--author_email"), ("phone", "--author_phone"), ("role", "--author_role"), ("location", "--location"), ("comment", "--comment")):
                if op.get(key) is not None:
                    args += [opt, op[key]]
            return C.create, args, cwd
        if k == "createsf":
            args = [rootarg]
            for f in op["F"]:
                args += ["-h", f]
            targets = sorted((tuple(x) for x in op["S"]), key=lambda t: (not os.path.isdir(w.cpath(t)), t))
            if self.spec["world"].get("sfrev"):
                targets.reverse()
            for s in targets:
                a, cwd = self.sf_arg(s, op["R"], cwd)
                args += ["-sf", a]
            if op.get("dup"):   # the same files named again in other spellings; a named folder again, and one file below it
                root = w.cpath(tuple(op["R"]))
                for n, s in enumerate(sorted(tuple(x) for x in op["S"])):
                    p = w.cpath(tuple(s))
                    if os.path.isdir(p):
                        args += ["-sf", [p, os.path.dirname(p) + "/./" + os.path.basename(p), p + "/"][(n + len(s)) % 3]]
                        below = sorted(os.path.join(dp, f) for dp, dn, fs in os.walk(p) for f in fs if "ascmhl" not in dp.split(os.sep) and f != ".DS_Store")
                        if below:
                            args += ["-sf", below[0]]
                    else:
                        args += ["-sf", [p, root + "/./" + os.path.relpath(p, root), os.path.dirname(p) + "//" + os.path.basename(p)][(n + len(op["S"])) % 3]]
            return C.create, args, cwd
        if k == "verify":
            args = [rootarg]
            for p in list(op.get("P", [])) + (list(op.get("P", []))[:1] if op.get("pdup") else []):
                args += ["-i", concrete_pattern(w, p)]
            args += self.pattern_file_args(op)
            return C.verify, args, cwd
        if k == "verifysf":
            a, cwd = self.sf_arg(op["S"], op["R"], cwd, relative_to_root=True)
            return C.verify, [rootarg, "-sf", a], cwd
        if k == "verifydh":
            args = [rootarg, "-dh"]
            if op.get("co"):
                args.append("-co")
            if op.get("ro"):
                args.append("-ro")
            if op.get("h"):
                args += ["-h", op["h"]]
            for p in list(op.get("P", [])) + (list(op.get("P", []))[:1] if op.get("pdup") else []):
                args += ["-i", concrete_pattern(w, p)]
            args += self.pattern_file_args(op)
            return C.verify, args, cwd
        if k == "verifypl":
            return C.verify, [rootarg, "-pl", self.flat_manifest or "/nonexistent"], cwd
        if k == "diff":
            args = [rootarg]
            for p in list(op.get("P", [])) + (list(op.get("P", []))[:1] if op.get("pdup") else []):
                args += ["-i", concrete_pattern(w, p)]
            args += self.pattern_file_args(op)
            return C.diff, args, cwd
        if k == "flatten":
            if self.spec["world"].get("flatrel"):     # relative destination, resolved against a cwd that is not the source root
                return C.flatten, [w.cpath(tuple(op["R"])), os.path.basename(w.flat_dest)], w.base
            if self.spec["world"].get("flatdeep"):    # a destination whose parent does not exist either: nothing outside the destination may appear
                return C.flatten, [rootarg, os.path.join(w.flat_dest, "lists", "today")], cwd
            return C.flatten, [rootarg, w.flat_dest], cwd
        if k == "info":
            return C.info, [rootarg], cwd
        if k == "infosf":
            a, cwd = self.sf_arg(op["S"], None if (op.get("R") is None or list(op["R"]) == ["-"]) else op["R"], cwd)
            args = ["-sf", a]
            if op.get("R") is not None and list(op["R"]) != ["-"]:
                args.append(w.cpath(tuple(op["R"])))
            return C.info, args, cwd
        if k == "hash":
            return C.hash, [w.cpath(tuple(op["S"])), "-h", op["h"]], cwd
        if k == "xsdcheck":
            folder = os.path.join(w.cpath(tuple(op["R"])), "ascmhl")
            names = sorted(n for n in os.listdir(folder) if n.endswith(".mhl")) if os.path.isdir(folder) else []
            target = os.path.join(folder, names[-1]) if names else folder
            return C.xsd_schema_check, [target, "-xsd", os.path.join(W.REPO, "xsd", "ASCMHL.xsd")], cwd
        raise ValueError(k)

    def pattern_file_args(self, op):
        w = self.w
        if not op.get("PF"):
            return []
        self.patfiles += 1
        pf = w.aux_path("patterns-%d.txt" % self.patfiles)
        with open(pf, "w") as fh:
            fh.write("".join(concrete_pattern(w, p) + "\n" for p in list(op["PF"]) + (list(op["PF"])[:1] if op.get("pdup") else [])))
        return ["-ii", pf]

    # -- output parsing ------------------------------------------------------------------
    def named(self, text, R):
        """abstract paths (relative to the universe root) whose concrete path relative to command
        root R occurs as a whole token in text"""
        w = self.w
        res = []
        R = tuple(R)
        for ap in w.files + w.dirs:
            if ap[: len(R)] != R or ap == R:
                continue
            rel = "/".join(w.names[a] for a in ap[len(R):])
            if re.search(r"(?:(?<=\s)|^)" + re.escape(rel) + r"(?=\s|$)", text, re.M):
                res.append(list(ap))
        return res

    def parse_out(self, op, res):
        out, err = res["out"], res["err"]
        R = op.get("R") or []
        lines = err.splitlines()
        missing_txt, mismatch_txt, new_txt, dh_txt = [], [], [], []
        in_missing = False
        for ln in lines:
            if re.match(r"^ERROR: \d+ missing file\(s\):", ln):
                in_missing = True
                continue
            if in_missing and ln.startswith("  "):
                missing_txt.append(ln)
                continue
            in_missing = False
            if "content hash mismatch" in ln or "structure hash mismatch" in ln:
                dh_txt.append(ln)
            elif "hash mismatch" in ln:
                # keep only the part before the digests
                mismatch_txt.append(re.split(r"\s(?:old |\S+ \(old\))", ln)[0])
            elif ln.startswith("found new file "):
                new_txt.append(ln[len("found new file "):])
        ren = []
        for ln in out.splitlines():
            mt = re.match(r"^a renamed (?:file|folder) was detected: from (.*) to (.*)$", ln)
            if mt:
                ren.append(ln)
        o = {
            "missing": self.named("\n".join(missing_txt), R),
            "mismatch": self.named("\n".join(mismatch_txt), R),
            "new": self.named("\n".join(new_txt), R),
            "dhfail": self.named("\n".join(dh_txt), R) + ([[]] if re.search(r"mismatch\s+for \.(?:\s|$)", "\n".join(dh_txt)) else []),
            "nmissing": len(missing_txt),
            "nmismatch": len(mismatch_txt),
            "nnew": len(new_txt),
            "nrenamed": len(ren),
        }
        return o

    # -- effective patterns (statement level) --------------------------------------------
    def effective_patterns(self, op, pre_hist):
        """latest generation's patterns of the command root (defaults when none) + CLI patterns"""
        if op["op"] in ("createsf",):
            return list(DEFAULT_PATTERNS)
        R = list(op.get("R") or [])
        latest = None
        for h in pre_hist:
            if h["h"] == R and h["gens"]:
                g = h["gens"][-1]
                if not g.get("broken") and g.get("pats"):
                    latest = list(g["pats"])
        eff = latest if latest else list(DEFAULT_PATTERNS)
        for p in list(op.get("P", [])) + list(op.get("PF", [])):
            c = concrete_pattern(self.w, p)
            if c not in eff:
                eff.append(c)
        return eff

    # -- one command step -----------------------------------------------------------------
    def step(self, op):
        w, pj = self.w, self.pj
        w.pin_mtimes()
        if self.spec["world"].get("touch"):
            self.touch_some()
        pre_snap = w.snapshot()
        pre = {"disk": pj.disk(pre_snap), "hist": self.hist(pre_snap)}
        eff = self.effective_patterns(op, pj.histories(pre_snap))
        op = dict(op)
        if op["op"] in ("create", "verify", "diff", "verifydh"):
            op["Pabs"] = list(op.get("P", [])) + list(op.get("PF", []))
            op.setdefault("P", [])
        if op["op"] == "create":
            op.setdefault("n", False)
            op.setdefault("dr", False)
        if op["op"] == "verifydh":
            op.setdefault("co", False)
            op.setdefault("ro", False)
            op["h"] = op.get("h") or ""
        if op["op"] == "infosf" and op.get("R") is None:
            op["R"] = ["-"]
        command, args, cwd = self.build(op)
        if op.get("v"):
            args = list(args) + ["-v"]
        stray = None
        if op.get("ctrlfile") and op["op"] == "create":
            # a file whose name XML cannot represent, present only while the command runs (the manifest writer fails in the
            # middle of the body); only where an ascmhl folder exists already (first generations: see DESIGN.md, residual of F20)
            rootp = w.cpath(tuple(op["R"]))
            if os.path.isdir(os.path.join(rootp, "ascmhl")):
                st = os.stat(rootp)
                stray = os.path.join(rootp, "zz\x01stray.mov")
                with open(stray, "wb") as fh:
                    fh.write(b"stray")
                os.utime(rootp, ns=(st.st_atime_ns, st.st_mtime_ns))
        res = w.run(command, args, cwd=cwd)
        if stray:
            os.remove(stray)
            os.utime(rootp, ns=(st.st_atime_ns, st.st_mtime_ns))
        post_snap = w.snapshot()
        delta = W.World.delta(pre_snap, post_snap)
        k = op["op"]
        new_manifests = [p for kd, p in delta if kd == "created" and p.endswith(".mhl")]
        # the time in the name of a new generation is the UTC time of the run (the harness clock), whatever the local zone
        want_stamp = w.clock.strftime("%Y-%m-%d_%H%M%SZ")
        stamps_ok = all((PJ.GEN_NAME.match(os.path.basename(p)) or [None] * 4)[3] == want_stamp
                        for p in new_manifests if os.path.basename(os.path.dirname(p)) == "ascmhl")
        if k in ("create", "createsf") and new_manifests:
            pj.judge_dirhashes(post_snap, new_manifests, w.cpath(tuple(op["R"])), eff)
            for mp in new_manifests:
                pj.snapdisk[mp] = pre["disk"]
                self.geninfo[mp] = (list(op["R"]), [abstract_pattern(w, p) for p in eff])
        for mp in new_manifests:
            self.reread[mp] = self.reread_check(mp)
        if k == "flatten":
            fl = [p for p in new_manifests if p.startswith(w.flat_dest)]
            if fl:
                self.flat_manifest = fl[0]
                self.flat_src = list(op["R"])
        post = {"disk": pj.disk(post_snap), "hist": self.hist(post_snap)}
        spec = pj.spec(eff)
        R = tuple(op.get("R") or ())
        ign = []
        for e in pre["disk"]:
            ap = tuple(e["p"])
            if ap[: len(R)] == R and ap != R:
                rel = "/".join(w.names.get(a, a.lstrip("?")) for a in ap[len(R):])
                if spec.match_file(rel):
                    ign.append(list(ap))
        line = {
            "tid": self.tid,
            "i": self.i,
            "op": op,
            "exit": res["exit"],
            "internal": bool(res["exc"]) or res["exit"] in (1, 2),
            "exc": res["exc"] or "",
            "out": self.parse_out(op, res),
            "delta": [{"k": kd, "p": self.describe(p)} for kd, p in delta],
            "writes": [{"k": e[0], "p": self.describe(e[1]), "q": self.describe(e[2]) if len(e) > 2 else {"area": "", "h": [], "rest": ""}} for e in res["writes"]],
            "eff": [abstract_pattern(w, p) for p in eff],
            "ign": ign,
            "pre": pre,
            "post": post,
            "stamps_ok": stamps_ok,
        }
        if k == "flatten" or k == "verifypl":
            line["flat"] = self.flat_projection(post_snap)
        if k in ("info", "infosf", "hash"):
            line["stdout"] = res["out"]
        if k == "verifydh" and op.get("co"):
            line["co"] = self.judge_co(res["out"], op, pre_snap, eff)
        if k == "info":
            line["info"] = self.parse_info(res["out"], op)
        if k == "infosf":
            line["infosf"] = self.parse_infosf(res["out"])
        if k == "hash":
            mt = re.search(r" = (\S+)\s*$", res["out"])
            fc = w.digest_table.get(mt.group(1)) if mt else None
            line["hashed"] = {"f": fc[0], "c": fc[1]} if fc else {"f": "?", "c": "BAD"}
        if self.spec.get("env_obs"):
            # C13: byte-level view of every history file, keyed by its root-relative path
            hb = []
            for p_, meta in sorted(post_snap.items()):
                if meta[0] == "f" and (p_.startswith(w.root + os.sep)) and "ascmhl" in os.path.relpath(p_, w.root).split(os.sep):
                    hb.append({"p": os.path.relpath(p_, w.root).replace(os.sep, "/"), "sha": meta[1]})
            line["hbytes"] = hb
            line["wrote"] = bool(new_manifests)
            line["copies"] = []
            if k == "create" and res["exit"] == 0:
                line["copies"] = self.copy_verify(op)
        if os.environ.get("VERIF_KEEP_TEXT"):
            line["stdout"], line["stderr"] = res["out"], res["err"]
        self.i += 1
        self.lines.append(line)
        return line

    def hist(self, snap):
        """projected histories with patterns abstracted and per-generation command info added"""
        w = self.w
        hs = self.pj.histories(snap)
        out = []
        for h in hs:
            h = dict(h)
            gens = []
            folder = os.path.join(w.cpath(tuple(x for x in h["h"])), "ascmhl") if not any(x.startswith("?") for x in h["h"]) else None
            for g in h["gens"]:
                g = dict(g)
                g["pats"] = [abstract_pattern(w, p) for p in g.get("pats", [])]
                info = self.geninfo.get(os.path.join(folder, g["name"])) if folder else None
                g["croot"], g["ceff"] = info if info else (h["h"], [])
                g["reread_ok"] = not self.reread.get(os.path.join(folder, g["name"]) if folder else "", [])
                for k, dflt in (("files", []), ("dirs", []), ("refs", []), ("snap", []), ("proc", ""), ("cdate", ""), ("xsd_ok", False), ("reread_ok", True), ("root", {"has": False, "fmts": [], "cok": [], "sok": [], "hs": []})):
                    g.setdefault(k, dflt)
                gens.append(g)
            h["gens"] = gens
            out.append(h)
        return out

    def reread_check(self, mp):
        """C10 on every manifest any command writes: the tool's reader and the independent reader agree"""
        from . import xmlcheck
        import ascmhl.hashlist_xml_parser as HX

        try:
            with open(mp, "rb") as fh:
                m = PJ.parse_manifest(fh.read())
            if "broken" in m:
                return ["independent reader: " + m["broken"]]
            cr = m["creator"]
            exp = {"hostname": cr.get("hostname"), "location": cr.get("location"), "comment": cr.get("comment"), "authors": cr.get("authors", []),
                   "proc": m["proc"], "pats": m["pats"],
                   "files": [{"path": r["path"], "size": int(r["size"]) if r["size"] is not None else None, "ents": [{"f": e["f"], "d": e["d"], "a": e["a"], "hd": xmlcheck._naive_utc(e.get("hashdate"))} for e in r["ents"]], "prev": r["prev"]} for r in m["files"]],
                   "dirs": [{"path": r["path"], "ents": [{"f": c["f"], "c": c["d"], "s": s_["d"]} for c, s_ in zip(r["content"], r["structure"])], "prev": r["prev"]} for r in m["dirs"]],
                   "root": None if m["root"] is None else [{"f": c["f"], "c": c["d"], "s": s_["d"]} for c, s_ in zip(m["root"]["content"], m["root"]["structure"])],
                   "refs": m["refs"]}
            parsed = HX.parse(mp)
            bad = [b for b in xmlcheck.compare_tool(parsed, exp) if not b.startswith("hashdate")]
            return bad
        except Exception as e:
            return ["%s: %s" % (type(e).__name__, e)]

    def copy_verify(self, op):
        """verify in place, then copy the sealed tree to other locations and verify there"""
        import shutil

        w = self.w
        src = w.cpath(tuple(op["R"]))
        orig = w.run(C.verify, [src])["exit"]
        out = []
        for k, sub in enumerate(["copies/plain/volcopy", "copies/ascmhl/volcopy", "copies/k_t.tmp/.DS_Store/volcopy"]):
            dst = os.path.join(w.base, sub + "-%d" % self.i)
            shutil.copytree(src, dst, symlinks=True)
            e = w.run(C.verify, [dst])["exit"]
            out.append({"where": sub, "exit": e, "orig": orig})
            shutil.rmtree(os.path.join(w.base, "copies"), ignore_errors=True)
        return out

    def touch_some(self):
        """pure timestamp changes: bump the mtime of a seeded random subset of media files / directories"""
        import random

        w = self.w
        rnd = random.Random("%s-%d" % (self.tid, self.i))
        for dp, dn, fn in os.walk(w.root):
            if "ascmhl" in dp.split(os.sep):
                continue
            for n in fn + [d for d in dn if d != "ascmhl"]:
                if rnd.random() < 0.5:
                    t = W.PIN_MTIME + rnd.randint(1, 10**6)
                    os.utime(os.path.join(dp, n), (t, t))

    def judge_co(self, out, op, snap, eff):
        """verify -dh -co prints the calculated hashes; compare each with the reference evaluator"""
        from . import oracle

        w = self.w
        Rabs = w.cpath(tuple(op["R"]))
        spec = self.pj.spec(eff)

        def tree_of(dir_abs):
            t = {}
            for p, meta in snap.items():
                if os.path.dirname(p) != dir_abs:
                    continue
                rel = os.path.relpath(p, Rabs).replace(os.sep, "/")
                if spec.match_file(rel):
                    continue
                t[os.path.basename(p)] = tree_of(p) if meta[0] == "d" else p
            return t

        def fd(fmt):
            def f(path):
                with open(path, "rb") as fh:
                    return oracle.digest(fmt, fh.read())
            return f

        printed, good, bad = 0, 0, []
        for ln in out.splitlines():
            m1 = re.match(r"^  calculated root hash  (\S+): (\S+) \(content\), (\S+) \(structure\)$", ln)
            m2 = re.match(r"^  calculated directory hash for (.*)  (\S+): (\S+) \(content\), (\S+) \(structure\)$", ln)
            if m1:
                rel, fmt, c, s_ = ".", m1.group(1), m1.group(2), m1.group(3)
            elif m2:
                rel, fmt, c, s_ = m2.group(1), m2.group(2), m2.group(3), m2.group(4)
            else:
                continue
            printed += 1
            d_abs = Rabs if rel == "." else os.path.join(Rabs, rel)
            try:
                rc, rs = oracle.dir_hashes(tree_of(d_abs), fmt, fd(fmt))
            except Exception:
                rc, rs = None, None
            if (rc, rs) == (c, s_):
                good += 1
            else:
                bad.append(rel)
        ndirs = 1 + sum(1 for p, meta in snap.items() if meta[0] == "d" and p.startswith(Rabs + os.sep) and "ascmhl" not in p.split(os.sep)
                        and not spec.match_file(os.path.relpath(p, Rabs).replace(os.sep, "/")))
        if op.get("ro"):
            ndirs = 1  # -ro prints the root hash only
        return {"printed": printed, "good": good, "bad": bad, "ndirs": ndirs}

    def parse_info(self, out, op):
        """info ROOT -> [{h: abstract root of the listed history, ns: [...], dates: [...]}]"""
        w = self.w
        res = []
        cur = None
        for ln in out.splitlines():
            mt = re.match(r"^Info with history at path: (.*)$", ln)
            mc = re.match(r"^Child History at (.*):$", ln)
            mg = re.match(r"^  Generation (\d+) \((.*)\)\s*$", ln)
            if mt or mc:
                path = os.path.normpath((mt or mc).group(1))
                rel = os.path.relpath(path, w.root).replace(os.sep, "/")
                cur = {"h": list(w.apath_of_rel(rel)), "ns": [], "dates": []}
                res.append(cur)
            elif mg and cur is not None:
                cur["ns"].append(int(mg.group(1)))
                cur["dates"].append(mg.group(2))
        return [r for r in res if r["ns"]]

    def parse_infosf(self, out):
        w = self.w
        res = []
        for ln in out.splitlines():
            mg = re.match(r"^  Generation (\d+) \((.*)\) (\S+): (\S+) \((\S*)\)\s*$", ln)
            if mg:
                fc = w.digest_table.get(mg.group(4))
                res.append({"n": int(mg.group(1)), "date": mg.group(2), "f": mg.group(3), "c": fc[1] if fc and fc[0] == mg.group(3) else "BAD", "a": mg.group(5)})
        return res

    def describe(self, p):
        """concrete path -> stable description relative to world base: [area, abstract-ish rel]"""
        w = self.w
        if p == w.root or p.startswith(w.root + os.sep):
            rel = os.path.relpath(p, w.root).replace(os.sep, "/")
            parts = [] if rel == "." else rel.split("/")
            if "ascmhl" in parts:
                i = parts.index("ascmhl")
                return {"area": "hist", "h": [w.rnames.get(c, "?" + c) for c in parts[:i]], "rest": "/".join(parts[i + 1:])}
            return {"area": "media", "h": [w.rnames.get(c, "?" + c) for c in parts], "rest": ""}
        fdest = os.path.join(w.flat_dest, "lists", "today") if self.spec["world"].get("flatdeep") else w.flat_dest
        if p == fdest or p.startswith(fdest + os.sep):
            return {"area": "flat", "h": [], "rest": os.path.relpath(p, fdest)}
        if p.startswith(w.base):
            return {"area": "other", "h": [], "rest": os.path.relpath(p, w.base)}
        return {"area": "outside", "h": [], "rest": p}

    def flat_projection(self, snap):
        """the flattened manifest(s) below flat_dest, read independently"""
        w = self.w
        res = {"manifests": [], "collection_present": False, "collection_xsd": True}
        for p, meta in sorted(snap.items()):
            if not p.startswith(w.flat_dest + os.sep) or meta[0] != "f":
                continue
            if p.endswith(".mhl"):
                with open(p, "rb") as fh:
                    data = fh.read()
                m = PJ.parse_manifest(data)
                ok, why = PJ.xsd_valid("manifest", data)
                files = []
                for r in m.get("files", []):
                    ents = []
                    for e in r["ents"]:
                        fc = w.digest_table.get(e["d"])
                        ents.append({"f": e["f"], "c": fc[1] if fc and fc[0] == e["f"] else "BAD", "a": e["a"] or "none"})
                    files.append({"p": list(w.apath_of_rel(r["path"])), "ents": ents})
                res["manifests"].append({"name": os.path.basename(p), "xsd_ok": ok, "xsd_why": why, "proc": m.get("proc") or "", "files": files, "ndirs": len(m.get("dirs", [])), "latest": p == self.flat_manifest})
            elif p.endswith("ascmhl_collection.xml"):
                res["collection_present"] = True
                with open(p, "rb") as fh:
                    ok, why = PJ.xsd_valid("directory", fh.read())
                res["collection_xsd"] = ok
        return res

    def run(self):
        try:
            for op in self.spec.get("init", []):
                self.env(op)
            for op in self.spec["ops"]:
                if op["op"] in self.ENV_OPS:
                    self.env(op)
                else:
                    self.step(op)
                    if self.spec.get("autotick", self.spec["world"].get("autotick", True)):
                        self.w.tick(self.spec["world"].get("clockstep", 1))     # clockstep < 0: the clock is set back between runs
        finally:
            if not os.environ.get("VERIF_KEEP_WORLD"):
                self.w.destroy()
        return self.lines


def execute(spec):
    try:
        return Runner(spec).run()
    except Exception:
        return [{"tid": spec.get("tid"), "i": -1, "harness_error": traceback.format_exc()}]


def run_many(specs, nproc=16, chunksize=8):
    if nproc <= 1 or len(specs) <= 1:
        for s in specs:
            yield execute(s)
        return
    with Pool(nproc) as pool:
        for lines in pool.imap(execute, specs, chunksize=chunksize):
            yield lines


if __name__ == "__main__":
    spec = json.load(open(sys.argv[1]))
    for ln in execute(spec):
        print(json.dumps(ln))
