"""Trace validation: shard ndjson traces over JVMs, run MhlHistoryTrace, collect verdicts."""
import json
import os
import shutil
import subprocess
from concurrent.futures import ThreadPoolExecutor

from . import tlc

FMTS = ["c4", "md5", "sha1", "xxh128", "xxh3", "xxh64"]


def pat_names(names):
    """abstract pattern -> set of abstract names it matches (component semantics)"""
    pn = {}
    for n in names:
        pn["n:" + n] = {n}
        pn["!n:" + n] = {n, "!neg"}      # negation of the base-name pattern (marker: see MhlHistory.Ign)
        pn["d:" + n] = set()  # trailing-slash pattern: directory entry itself not matched; see DESIGN
    pn["g:tmp"] = {n for n in names if n.endswith("_t")}
    pn[".DS_Store"] = {n for n in names if n == "dsstore"}
    return pn


SPEC_NAME = {"MhlTimeTrace": "TSpec", "MhlXmlTrace": "TSpec", "MhlTamperTrace": "TSpec", "MhlCommitTrace": "TSpec", "MhlUpdaterTrace": "TSpec", "MhlHasherTrace": "TSpec"}
# MhlCommitTrace extends MhlCommit, whose constants are irrelevant for trace validation (every line carries its own)
EXTRA_CFG = {"MhlUpdaterTrace": "CONSTANTS\n Servers = {\"ok\"}\n Versions = {\"newer\"}\n ExitCodes = {0}\n", "MhlHasherTrace": "CONSTANTS\n K = 4\n MaxLen = 1\n Hashers = {\"md5\"}\n B = 2\n Wd = 2\n", "MhlTimeTrace": "CONSTANTS\n Instants <- c_Instants\n Zones <- c_Zones\n Sizes <- c_Sizes\n Mode = \"at_date\"\n", "MhlXmlTrace": "CONSTANTS\n Fmts <- c_Fmts\n FmtSeqs <- c_FmtSeqs\n MaxRecs = 1\n MaxRefs = 1\n MaxAuthors = 1\n MaxPats = 1\n", "MhlTamperTrace": "CONSTANTS\n Order <- c_Order\n NGens <- c_NGens\n MaxFaults = 2\n", "MhlCommitTrace": "CONSTANTS\n Hist <- c_Hist\n Prior <- c_Prior\n W = 1\n Atomic = TRUE\n"}
EXTRA_DEFS = {"MhlTimeTrace": 'c_Instants == {0}\nc_Zones == {0}\nc_Sizes == {0}\n', "MhlXmlTrace": 'c_Fmts == <<"c4", "md5", "sha1", "xxh128", "xxh3", "xxh64">>\nc_FmtSeqs == {<<>>}\n', "MhlTamperTrace": 'c_Order == << <<>>, <<"d">>, <<"d", "e">>, <<"d2">> >>\nc_NGens == (<<>> :> 2 @@ <<"d">> :> 3 @@ <<"d", "e">> :> 4 @@ <<"d2">> :> 3)\n', "MhlCommitTrace": 'c_Hist == <<"r">>\nc_Prior == ("r" :> 0)\n'}
NO_CONSTS = {"MhlEnv", "MhlTamperTrace", "MhlCommitTrace", "MhlXmlTrace", "MhlTimeTrace", "MhlHasherTrace", "MhlUpdaterTrace"}


def write_trace_module(wd, modname, trace_module, names, extra_defs=""):
    pn = pat_names(names)
    with open(os.path.join(wd, modname + ".tla"), "w") as fh:
        fh.write("---- MODULE %s ----\nEXTENDS %s\n" % (modname, trace_module))
        if trace_module not in NO_CONSTS:
            fh.write("c_Fmts == %s\n" % tlc.tla(tuple(FMTS)))
            fh.write("c_PatNames == %s\n" % tlc.tla(tlc.Fn({k: set(v) for k, v in sorted(pn.items())})))
        fh.write(extra_defs or EXTRA_DEFS.get(trace_module, ""))
        fh.write("====\n")
    with open(os.path.join(wd, modname + ".cfg"), "w") as fh:
        if trace_module not in NO_CONSTS:
            fh.write("SPECIFICATION Spec\nCONSTANTS\n Fmts <- c_Fmts\n PatNames <- c_PatNames\n")
        else:
            fh.write("SPECIFICATION %s\n" % SPEC_NAME.get(trace_module, "Spec"))
            fh.write(EXTRA_CFG.get(trace_module, ""))


def _run_shard(args):
    wd, modname, trace_file, k = args
    r = tlc.run_tlc(wd, modname, modname + ".cfg", workers=1, env={"TRACE_FILE": trace_file}, extra=[], heap="3g")
    verdicts = list(tlc.printed(r.out, "V"))
    return k, r, verdicts


def validate(lines, names, trace_module="MhlHistoryTrace", shards=16, keep=False, tag="trace"):
    """lines: list of trace dicts -> (verdicts list aligned by (tid,i), diagnostics)"""
    lines = [ln for ln in lines if "harness_error" not in ln]
    wd = tlc.workdir(tag)
    try:
        tlc.prepare(wd)
        modname = "MCT_" + tag.replace("-", "_")
        write_trace_module(wd, modname, trace_module, names)
        # keep all lines of one tid in one shard (not required, but nicer diagnostics)
        by_tid = {}
        for ln in lines:
            by_tid.setdefault(ln["tid"], []).append(ln)
        tids = list(by_tid)
        nsh = max(1, min(shards, len(tids)))
        buckets = [[] for _ in range(nsh)]
        sizes = [0] * nsh
        for t in sorted(tids, key=lambda t: -len(by_tid[t])):
            j = sizes.index(min(sizes))
            buckets[j].extend(by_tid[t])
            sizes[j] += len(by_tid[t])
        jobs = []
        for k, b in enumerate(buckets):
            tf = os.path.join(wd, "trace-%d.ndjson" % k)
            with open(tf, "w") as fh:
                for ln in b:
                    fh.write(json.dumps(ln, ensure_ascii=True) + "\n")
            jobs.append((wd, modname, tf, k))
        verdicts = {}
        diags = []
        with ThreadPoolExecutor(max_workers=nsh) as ex:
            for k, r, vs in ex.map(_run_shard, jobs):
                seen = set()
                for v in vs:
                    key = (v["tid"], v["i"])
                    if key in seen:
                        continue
                    seen.add(key)
                    verdicts[key] = v
                if len(seen) != len(buckets[k]):
                    # TLC stopped early: report where
                    missing = [(ln["tid"], ln["i"]) for ln in buckets[k] if (ln["tid"], ln["i"]) not in seen]
                    diags.append({"shard": k, "rc": r.rc, "first_unjudged": missing[0] if missing else None, "unjudged": len(missing), "tail": r.out[-3000:]})
        return verdicts, diags
    finally:
        if not keep and not os.environ.get("VERIF_KEEP_TLC"):
            shutil.rmtree(wd, ignore_errors=True)
