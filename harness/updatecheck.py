"""C20: the background update check.  requests.get is stubbed; threading.Event gates and sleeps
force the schedules the model enumerates (answer before the command ends, during the join,
after the timeout, never)."""
import os
import shutil
import tempfile
import threading
import time

from . import world as W  # noqa: F401

import requests
from click.testing import CliRunner

import ascmhl.cli.update as U
import ascmhl.commands as C
from ascmhl.__version__ import ascmhl_tool_version

threading.excepthook = lambda a: None      # the worker thread's tracebacks (stderr) are not part of the observation

SERVERS = ["ok", "http_error", "conn_error", "bad_json", "no_tag", "bad_version", "other_exception", "hang"]
VERSIONS = {"newer": "99.1.0", "equal": ascmhl_tool_version, "older": "0.0.1", "pre": "99.1.0rc1", "dev": "99.1.0.dev3", "garbage": "not a version !", "missing": None,
            # spellings of the same classes that parse differently: v-prefix, dev release number 0, a0, post+dev, local version
            "newer_v": "v99.1.0", "dev0": "v99.1.0-dev", "dev0b": "99.1.0.dev0", "pre0": "99.1.0a0", "postdev": "99.0.post1.dev0", "older_dev": "0.0.1.dev0"}
VERSION_CLASS = {"newer_v": "newer", "dev0": "dev", "dev0b": "dev", "pre0": "pre", "postdev": "dev", "older_dev": "older"}
TIMINGS = {"before": 0.0, "during_join": 0.35, "after_timeout": 1.7}
NOTICE = "Please update to the latest ascmhl version using `pip3 install -U ascmhl`."


class FakeResponse:
    def __init__(self, server, version):
        self.server, self.version = server, version

    def raise_for_status(self):
        if self.server == "http_error":
            raise requests.exceptions.HTTPError("500 Server Error")

    def json(self):
        if self.server == "bad_json":
            raise ValueError("Expecting value: line 1 column 1 (char 0)")
        if self.server == "no_tag":
            return {"message": "rate limit"}
        if self.server == "bad_version":
            return {"tag_name": "not a version !"}
        return {"tag_name": VERSIONS[self.version]} if VERSIONS[self.version] is not None else {}


def run_case(args):
    k, group, server, version, timing, cmd = args
    cmd_label, verbose = cmd, cmd.endswith("_v")      # '<cmd>_v': the same command with -v (verbose output is the command's own)
    if verbose:
        cmd = cmd[:-2]
    import ascmhl.cli.ascmhl as G1
    import ascmhl.cli.ascmhl_debug as G2

    mod = G1 if group == "ascmhl" else G2
    cli = G1.mhltool_cli if group == "ascmhl" else G2.mhldebugtool_cli
    wd = tempfile.mkdtemp(prefix="mhl-verif-upd-", dir=os.environ.get("VERIF_SCRATCH", "/dev/shm"))
    release = threading.Event()
    answered = {"t": None}
    try:
        root = os.path.join(wd, "vol")
        os.makedirs(root)
        with open(os.path.join(root, "a.mov"), "wb") as fh:
            fh.write(b"content")
        runner = CliRunner(mix_stderr=False)
        # prepare a history, and the command under test with its own (group-less) reference result
        if cmd in ("ok", "fail11"):
            runner.invoke(C.create, [root, "-h", "md5"])
        if cmd == "fail11":
            with open(os.path.join(root, "a.mov"), "wb") as fh:
                fh.write(b"changed")
        if group == "ascmhl":
            argv, bare = (["info", root], C.info) if cmd != "fail11" else (["create", root, "-h", "md5"], C.create)
            if cmd == "fail11":
                pass
        else:
            argv, bare = ["verify", root], C.verify
        if verbose:
            argv = argv + ["-v"]
        # reference: the bare command on an identical copy
        ref_root = os.path.join(wd, "ref", "vol")
        shutil.copytree(root, ref_root)
        ref = runner.invoke(bare, [ref_root] + argv[2:])
        ref_out = ref.stdout.replace(ref_root, root)

        def fake_get(url, *a, **kw):
            if server == "hang":
                release.wait(30)
                raise requests.exceptions.ConnectionError("gave up")
            time.sleep(TIMINGS[timing])
            answered["t"] = time.time()
            if server == "conn_error":
                raise requests.exceptions.ConnectionError("refused")
            if server == "other_exception":
                raise RuntimeError("boom")
            return FakeResponse(server, version)

        orig_get = requests.get
        requests.get = fake_get
        try:
            mod.updater = U.Updater()
            t0 = time.time()
            box = {}

            def call():
                box["res"] = runner.invoke(cli, argv)

            th = threading.Thread(target=call, daemon=True)      # watchdog: a command that never returns is a finding, not a hang of the check
            th.start()
            th.join(8)
            elapsed = time.time() - t0
            if "res" not in box:
                release.set()
                return {"tid": "upd-%d" % k, "i": 0, "group": group, "server": server, "version": VERSION_CLASS.get(version, version), "version_text": str(VERSIONS.get(version)),
                        "timing": timing if server != "hang" else "never", "cmd": cmd_label, "exit": -9, "ref_exit": ref.exit_code, "stdout_same": False, "notice": False,
                        "notice_last": True, "notice_count": 0, "elapsed_ms": int(elapsed * 1000), "ref_ms": 0, "op": {"op": cmd_label}, "exc": "command did not return within 8 s"}
            res = box["res"]
        finally:
            requests.get = orig_get
        out = res.stdout
        has_notice = NOTICE in out
        stripped = out.replace(NOTICE + "\n", "") if has_notice else out
        return {"tid": "upd-%d" % k, "i": 0, "group": group, "server": server, "version": VERSION_CLASS.get(version, version), "version_text": str(VERSIONS.get(version)), "timing": timing if server != "hang" else "never", "cmd": cmd_label,
                "exit": res.exit_code, "ref_exit": ref.exit_code, "stdout_same": stripped == ref_out, "notice": has_notice,
                "notice_last": (not has_notice) or out.endswith(NOTICE + "\n"), "notice_count": out.count(NOTICE),
                "elapsed_ms": int(elapsed * 1000), "ref_ms": 0, "op": {"op": cmd_label},
                "exc": "" if res.exception is None or isinstance(res.exception, SystemExit) else "%s: %s" % (type(res.exception).__name__, res.exception)}
    finally:
        release.set()
        shutil.rmtree(wd, ignore_errors=True)


SUBPROCESS_DRIVER = r"""
import sys, time, threading
threading.excepthook = lambda a: None
import requests
mode = sys.argv[1]
def fake_get(url, *a, **kw):
    if mode == "hang":
        time.sleep(3600)
    time.sleep(float(mode))
    class R:
        def raise_for_status(self): pass
        def json(self): return {"tag_name": "99.1.0"}
    return R()
requests.get = fake_get
sys.path.insert(0, sys.argv[2])
if sys.argv[3] == "debug":
    from ascmhl.cli.ascmhl_debug import mhldebugtool_cli as cli
else:
    from ascmhl.cli.ascmhl import mhltool_cli as cli
sys.argv = ["ascmhl"] + sys.argv[4:]
cli()
"""


def subprocess_case(args):
    """a real process: the interpreter must exit about one second after the command at the latest, even when the
    checker thread never returns (daemon thread)"""
    import subprocess
    import sys

    k, mode = args
    group = "debug" if k % 2 else "main"
    wd = tempfile.mkdtemp(prefix="mhl-verif-updp-", dir=os.environ.get("VERIF_SCRATCH", "/dev/shm"))
    try:
        root = os.path.join(wd, "vol")
        os.makedirs(root)
        with open(os.path.join(root, "a.mov"), "wb") as fh:
            fh.write(b"content")
        CliRunner().invoke(C.create, [root, "-h", "md5"])
        ref = CliRunner(mix_stderr=False).invoke(C.verify if group == "debug" else C.info, [root])
        drv = os.path.join(wd, "driver.py")
        with open(drv, "w") as fh:
            fh.write(SUBPROCESS_DRIVER)
        t0 = time.time()
        try:
            p = subprocess.run([sys.executable, drv, mode, W.REPO, group, "verify" if group == "debug" else "info", root], stdout=subprocess.PIPE, stderr=subprocess.PIPE, timeout=12)
        except subprocess.TimeoutExpired as te:
            p = subprocess.CompletedProcess([], -9, te.stdout or b"", te.stderr or b"")
        elapsed = time.time() - t0
        out = p.stdout.decode()
        has_notice = NOTICE in out
        stripped = out.replace(NOTICE + "\n", "") if has_notice else out
        return {"tid": "updp-%d" % k, "i": 0, "group": "ascmhl-debug (subprocess)" if group == "debug" else "ascmhl (subprocess)", "server": "hang" if mode == "hang" else "ok", "version": "newer",
                "timing": "never" if mode == "hang" else ("before" if float(mode) < 0.2 else "after_timeout"), "cmd": "ok",
                "exit": p.returncode, "ref_exit": ref.exit_code, "stdout_same": stripped == ref.stdout, "notice": has_notice,
                "notice_last": (not has_notice) or out.endswith(NOTICE + "\n"), "notice_count": out.count(NOTICE),
                "elapsed_ms": max(0, int(elapsed * 1000) - 900), "ref_ms": 0, "op": {"op": "ok"}, "exc": ""}   # ~0.9 s interpreter start-up and imports
    finally:
        shutil.rmtree(wd, ignore_errors=True)
