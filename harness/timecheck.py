"""C16: sizes and dates in any time zone.  The real tool is run with TZ set and a harness-side
clock shim (module attributes of ascmhl.* replaced by pass-through proxies whose now() reads an
injected instant); file modification times are set with os.utime."""
import datetime
import os
import re
import shutil
import time
import types
import zoneinfo

from . import world as W
from . import project as PJ

import ascmhl.commands as C
import ascmhl.hashlist
import ascmhl.history
import ascmhl.utils
from click.testing import CliRunner

ZONES = ["UTC", "Asia/Kolkata", "Etc/GMT+8", "Europe/Berlin", "America/New_York", "Australia/Sydney", "Pacific/Chatham",
         # negative offsets with minutes, quarter-hour offsets, half-hour DST zones
         "America/St_Johns", "Pacific/Marquesas", "Asia/Kathmandu", "Australia/Adelaide", "Australia/Lord_Howe"]
# instants well away from any switch (UTC): mid January / mid July of two years
T_WINTER = int(datetime.datetime(2021, 1, 15, 12, 0, 7, tzinfo=datetime.timezone.utc).timestamp())
T_SUMMER = int(datetime.datetime(2021, 7, 15, 12, 0, 7, tzinfo=datetime.timezone.utc).timestamp())
N_WINTER = int(datetime.datetime(2023, 1, 20, 9, 30, 15, tzinfo=datetime.timezone.utc).timestamp())
N_SUMMER = int(datetime.datetime(2023, 7, 20, 9, 30, 15, tzinfo=datetime.timezone.utc).timestamp())
SIZES = [0, 1, 2**20 + 1]

_FAKE = {"now": None}


class FakeDT(datetime.datetime):
    @classmethod
    def now(cls, tz=None):
        return cls.fromtimestamp(_FAKE["now"], tz) if _FAKE["now"] is not None else super().now(tz)

    @classmethod
    def utcnow(cls):
        return cls.fromtimestamp(_FAKE["now"], datetime.timezone.utc).replace(tzinfo=None) if _FAKE["now"] is not None else super().utcnow()


def _dt_module():
    m = types.ModuleType("datetime_proxy")
    for k in dir(datetime):
        if not k.startswith("__"):
            setattr(m, k, getattr(datetime, k))
    m.datetime = FakeDT
    return m


def _time_module():
    m = types.ModuleType("time_proxy")
    for k in dir(time):
        if not k.startswith("__"):
            setattr(m, k, getattr(time, k))

    def localtime(t=None):
        return time.localtime(_FAKE["now"] if t is None and _FAKE["now"] is not None else t)

    def now():
        return _FAKE["now"] if _FAKE["now"] is not None else time.time()

    m.localtime = localtime
    m.time = now
    # altzone / timezone are read at call time (tzset may have changed them)
    m.__getattr__ = lambda name: getattr(time, name)
    return m


class TimeProxy:
    """attribute pass-through to the time module, with localtime()/time() reading the injected instant"""

    def __getattr__(self, name):
        if name == "localtime":
            return lambda t=None: time.localtime(_FAKE["now"] if t is None and _FAKE["now"] is not None else t)
        if name == "time":
            return lambda: _FAKE["now"] if _FAKE["now"] is not None else time.time()
        return getattr(time, name)


class Shim:
    def __enter__(self):
        self.saved = [(ascmhl.utils, "datetime", ascmhl.utils.datetime), (ascmhl.utils, "time", ascmhl.utils.time),
                      (ascmhl.hashlist, "datetime", ascmhl.hashlist.datetime), (ascmhl.history, "datetime", ascmhl.history.datetime),
                      (C, "datetime", C.datetime)]
        dtm = _dt_module()
        ascmhl.utils.datetime = dtm
        ascmhl.utils.time = TimeProxy()
        ascmhl.hashlist.datetime = FakeDT
        ascmhl.history.datetime = FakeDT
        C.datetime = dtm
        return self

    def __exit__(self, *a):
        for mod, name, val in self.saved:
            setattr(mod, name, val)
        _FAKE["now"] = None
        return False


ISO = re.compile(r"^(\d{4})-(\d\d)-(\d\d)T(\d\d):(\d\d):(\d\d)(\.\d+)?([+-])(\d\d):(\d\d)$")


def parse_iso(s):
    """-> (instant as epoch seconds (float), offset seconds) or None when not well-formed ISO-8601 with offset"""
    m = ISO.match(s or "")
    if not m:
        return None
    y, mo, d, h, mi, sec = (int(m.group(i)) for i in range(1, 7))
    frac = float(m.group(7) or 0)
    off = (1 if m.group(8) == "+" else -1) * (int(m.group(9)) * 3600 + int(m.group(10)) * 60)
    try:
        naive = datetime.datetime(y, mo, d, h, mi, sec, tzinfo=datetime.timezone.utc).timestamp()
    except ValueError:
        return None
    return naive - off + frac, off


def true_offset(zone, instant):
    return int(zoneinfo.ZoneInfo(zone).utcoffset(datetime.datetime.fromtimestamp(instant, datetime.timezone.utc)).total_seconds())


def run_cell(args):
    zone, t_file, t_now, size, k = args
    old_tz = os.environ.get("TZ")
    os.environ["TZ"] = zone
    time.tzset()
    w = W.World([("f",), ("g",)], [], name_class="plain", salt="t%d" % k)
    try:
        p = w.cpath(("f",))
        with open(p, "wb") as fh:
            fh.write(b"x" * size)
        # a second file of another size and another time next to it (values must not leak between records)
        other_size = {0: 7, 1: 0}.get(size, 3)
        p2 = w.cpath(("g",))
        with open(p2, "wb") as fh:
            fh.write(b"y" * other_size)
        os.utime(p2, (t_file - 5 * 86400, t_file - 40 * 86400))
        os.utime(p, (t_file - 3 * 86400, t_file))          # access time differs from modification time
        os.utime(w.root, (t_file, t_file))
        with Shim():
            _FAKE["now"] = t_now + 0.25                     # not at a full second: hash dates carry microseconds
            res = CliRunner(mix_stderr=False).invoke(C.create, [w.root, "-h", "md5"], catch_exceptions=True)
        folder = os.path.join(w.root, "ascmhl")
        names = [n for n in os.listdir(folder) if n.endswith(".mhl")] if os.path.isdir(folder) else []
        line = {"tid": "time-%d" % k, "i": 0, "zone": zone, "t": t_file, "now": t_now, "size": size, "exit": res.exit_code, "op": {"op": "create"},
                "exc": "" if res.exception is None or isinstance(res.exception, SystemExit) else "%s: %s" % (type(res.exception).__name__, res.exception),
                "off_t": true_offset(zone, t_file), "off_now": true_offset(zone, t_now), "dates": [], "flat": [], "flat_exit": -1, "flat_size": -2, "flat_fname_ok": False, "size_written": -1, "fname_ok": False}
        if names:
            with open(os.path.join(folder, names[0]), "rb") as fh:
                m = PJ.parse_manifest(fh.read())
            recs = {os.path.basename(r["path"]): r for r in m["files"]}
            rec = recs.get(os.path.basename(p), m["files"][0])
            rec2 = recs.get(os.path.basename(p2))
            line["size_written"] = int(rec["size"]) if rec["size"] is not None and rec["size"].isdigit() else -1
            if rec2 is None or rec2["size"] is None or int(rec2["size"]) != other_size:
                line["size_written"] = -2                  # the neighbour's record is wrong
            pr2 = parse_iso(rec2["lastmod"]) if rec2 else None
            if pr2 is None or int(pr2[0]) != t_file - 40 * 86400:
                line["size_written"] = -3
            stamp = PJ.GEN_NAME.match(names[0]).group(3)
            line["fname_ok"] = stamp == datetime.datetime.fromtimestamp(t_now, datetime.timezone.utc).strftime("%Y-%m-%d_%H%M%SZ")
            for what, s, inst in (("lastmod", rec["lastmod"], t_file), ("hashdate", rec["ents"][0]["hashdate"], t_now), ("creationdate", m["creator"].get("creationdate"), t_now)):
                pr = parse_iso(s)
                line["dates"].append({"what": what, "text": s or "", "wellformed": pr is not None, "instant": int(pr[0]) if pr else -1,
                                      "offset": pr[1] if pr else 0, "true_instant": inst, "true_offset": true_offset(zone, inst)})
            # the same dates carried into a packing list by a flatten that runs in another zone: same instants
            other = "Asia/Tokyo" if zone != "Asia/Tokyo" else "America/New_York"
            os.environ["TZ"] = other
            time.tzset()
            with Shim():
                _FAKE["now"] = t_now + 3600.25
                res2 = CliRunner(mix_stderr=False).invoke(C.flatten, [w.root, w.flat_dest], catch_exceptions=True)
            line["flat_exit"] = res2.exit_code
            fl = []
            for dp, dn, fs in os.walk(w.flat_dest):
                for fn in fs:
                    if fn.endswith(".mhl"):
                        # the packing list's own file name carries the UTC time of the flatten run
                        mt_ = re.search(r"_(\d{4}-\d{2}-\d{2}_\d{6}Z)\.mhl$", fn)
                        line["flat_fname_ok"] = bool(mt_) and mt_.group(1) == datetime.datetime.fromtimestamp(t_now + 3600, datetime.timezone.utc).strftime("%Y-%m-%d_%H%M%SZ")
                        with open(os.path.join(dp, fn), "rb") as fh:
                            fm = PJ.parse_manifest(fh.read())
                        for r in fm.get("files", []):
                            if os.path.basename(r["path"]) == os.path.basename(p):
                                line["flat_size"] = int(r["size"]) if r.get("size") is not None and str(r["size"]).isdigit() else -1
                                for what, s_, inst in (("flat hashdate", r["ents"][0]["hashdate"], t_now),):      # (the tool's reader does not read lastmodificationdate back: not carried)
                                    pr = parse_iso(s_)
                                    fl.append({"what": what, "text": s_ or "", "wellformed": pr is not None, "instant": int(pr[0]) if pr else -1,
                                               "offset": pr[1] if pr else 0, "true_instant": inst, "true_offset": true_offset(zone, inst)})
            line["flat"] = fl
        return line
    finally:
        w.destroy()
        if old_tz is None:
            os.environ.pop("TZ", None)
        else:
            os.environ["TZ"] = old_tz
        time.tzset()
