"""C10 / C11: document shapes from MhlXml.tla driven through the real writers and readers."""
import datetime
import os
import random
import shutil
import tempfile

from . import oracle
from . import project as PJ
from . import world as W  # noqa: F401  (sets TZ, import path)

import ascmhl.chain_xml_parser as CX
import ascmhl.hashlist_xml_parser as HX
from ascmhl.chain import MHLChain, MHLChainGeneration
from ascmhl.hashlist import (MHLAuthor, MHLCreatorInfo, MHLHashEntry, MHLHashList, MHLMediaHash, MHLProcess, MHLProcessInfo, MHLTool)
from ascmhl.ignore import MHLIgnoreSpec

ALPHABETS = [
    "abcXYZ019 _-.",
    "äöüßÉñ 日本語 中文 한국어 ",
    "&<>'\" amp;lt; ]]> <!-- --> %20 \\ ",
    "😀🎬 ​  emoji",
    " leading and trailing ",
    "e\u0301a\u0308o\u0302\u212b\u2126n\u0303 x",     # decomposed sequences and singleton equivalents (not NFC-stable)
    "ab\u2028cd\u2029e\u00a0\u200b\u202f\u3000 x",           # Unicode line / paragraph separators and odd spaces (not control characters)
]


def text(rnd, cls=None, n=None, strip=True):
    cls = rnd.randrange(len(ALPHABETS)) if cls is None else cls
    a = ALPHABETS[cls]
    s = "".join(rnd.choice(a) for _ in range(n or rnd.randint(1, 12)))
    if strip:
        s = s.strip() or "x"
    return s


def path_text(rnd, depth=None):
    parts = []
    for _ in range(depth or rnd.randint(1, 3)):
        p = text(rnd).replace("\\", "_").replace("/", "_")
        if p in (".", ".."):
            p = "p"
        parts.append(p)
    return "/".join(parts)


def digest_text(fmt, rnd):
    return oracle.digest(fmt, bytes(rnd.getrandbits(8) for _ in range(16)))


SIZES = [0, 1, 12345, 2**31 - 1, 2**31, 2**40 + 7, 2**53 + 1, 10**18 + 3]
ACTIONS = ["original", "verified", "failed"]


def concretise(doc, rnd, workdir):
    """doc shape -> (MHLHashList ready to be written, expected plain values)"""
    hl = MHLHashList()
    ci = MHLCreatorInfo()
    ci.tool = MHLTool("ascmhl", "1.0")
    ci.creation_date = "2021-03-04T10:00:00+00:00"
    ci.host_name = text(rnd)
    exp = {"hostname": ci.host_name, "authors": [], "location": None, "comment": None, "files": [], "dirs": [], "root": None, "pats": [], "refs": [], "proc": None}
    for _ in range(doc["authors"]):
        a = MHLAuthor(text(rnd), email=rnd.choice([None, "a.b@example.com"]), phone=rnd.choice([None, text(rnd)]), role=rnd.choice([None, text(rnd)]))
        ci.authors.append(a)
        exp["authors"].append({"name": a.name, "email": a.email, "phone": a.phone, "role": a.role})
    if doc["location"]:
        ci.location = exp["location"] = text(rnd)
    if doc["comment"]:
        ci.comment = exp["comment"] = text(rnd)
    hl.creator_info = ci
    pi = MHLProcessInfo()
    proc = rnd.choice(["in-place", "flatten"])
    pi.process = MHLProcess(proc)
    exp["proc"] = proc
    pats = [".DS_Store", "ascmhl", "ascmhl/"][: max(1, min(3, doc["npats"]))] if doc["npats"] <= 1 else [".DS_Store"] + [text(rnd) for _ in range(doc["npats"] - 1)]
    pats = list(dict.fromkeys(pats))
    pi.ignore_spec = MHLIgnoreSpec(pats)
    exp["pats"] = pi.ignore_spec.get_pattern_list()
    hl.process_info = pi
    if doc["root"]:
        rm = MHLMediaHash()
        rm.path = "."
        rm.is_directory = True
        ents = []
        for f in doc["root"]:
            e = MHLHashEntry(f, digest_text(f, rnd), hash_date=datetime.datetime(2021, 3, 4, 10, 0, 1, 250000))
            e.structure_hash_string = digest_text(f, rnd)
            rm.append_hash_entry(e)
            ents.append({"f": f, "c": e.hash_string, "s": e.structure_hash_string})
        hl.append_hash(rm)
        exp["root"] = ents
    used = set()
    for r in doc["recs"]:
        mh = MHLMediaHash()
        while True:
            p = path_text(rnd)
            if p not in used:
                used.add(p)
                break
        mh.path = p
        prev = None
        if r["prev"]:
            prev = path_text(rnd)
            mh.previous_path = prev
        mh.last_modification_date = datetime.datetime(2020, 9, 13, 12, 26, 40)
        if r["kind"] == "file":
            mh.file_size = rnd.choice(SIZES)
            ents = []
            for f in r["fmts"]:
                # every entry has its own hash date (formats are added in different runs)
                hdate = datetime.datetime(2021, 3, 4, 10, 0, 1, 250000) + datetime.timedelta(days=len(exp["files"]), seconds=7 * len(ents), microseconds=1000 * len(ents))
                e = MHLHashEntry(f, digest_text(f, rnd), rnd.choice(ACTIONS), hash_date=hdate)
                mh.append_hash_entry(e)
                ents.append({"f": f, "d": e.hash_string, "a": e.action, "hd": hdate.isoformat()})
            exp["files"].append({"path": p, "size": mh.file_size, "ents": ents, "prev": prev})
        else:
            mh.is_directory = True
            ents = []
            for f in r["fmts"]:
                e = MHLHashEntry(f, digest_text(f, rnd), hash_date=datetime.datetime(2021, 3, 4, 10, 0, 1, 250000))
                e.structure_hash_string = digest_text(f, rnd)
                mh.append_hash_entry(e)
                ents.append({"f": f, "c": e.hash_string, "s": e.structure_hash_string})
            exp["dirs"].append({"path": p, "ents": ents, "prev": prev})
        hl.append_hash(mh)
    for k in range(doc["nrefs"]):
        child = MHLHashList()
        sub = "child%d_%s" % (k, text(rnd, cls=rnd.choice([0, 1])).replace("/", "_").strip(". ") or "c")
        cdir = os.path.join(workdir, sub, "ascmhl")
        os.makedirs(cdir, exist_ok=True)
        child.file_path = os.path.join(cdir, "0001_%s_2021-03-04_100000Z.mhl" % sub)
        with open(child.file_path, "wb") as fh:
            fh.write(("<x>%d</x>" % rnd.getrandbits(32)).encode())
        hl.referenced_hash_lists.append(child)
        with open(child.file_path, "rb") as fh:
            exp["refs"].append({"path": "%s/ascmhl/%s" % (sub, os.path.basename(child.file_path)), "c4": oracle.digest("c4", fh.read())})
    return hl, exp


def compare_tool(parsed, exp):
    """field by field: what the tool's own reader recovered vs what was handed to the writer"""
    bad = []

    def chk(name, a, b):
        if a != b:
            bad.append("%s: %r != %r" % (name, a, b))

    chk("hostname", parsed.creator_info.host_name, exp["hostname"])
    chk("location", parsed.creator_info.location, exp["location"])
    chk("comment", parsed.creator_info.comment, exp["comment"])
    chk("authors", [{"name": a.name, "email": a.email, "phone": a.phone, "role": a.role} for a in parsed.creator_info.authors], exp["authors"])
    chk("process", parsed.process_info.process, exp["proc"])
    chk("patterns", parsed.process_info.ignore_spec.get_pattern_list(), exp["pats"])
    files = [m for m in parsed.media_hashes if not m.is_directory]
    dirs = [m for m in parsed.media_hashes if m.is_directory]
    chk("files", [{"path": m.path, "size": m.file_size, "ents": [{"f": e.hash_format, "d": e.hash_string, "a": e.action, "hd": e.hash_date.replace(tzinfo=None).isoformat() if e.hash_date else None} for e in m.hash_entries], "prev": m.previous_path} for m in files], exp["files"])
    chk("dirs", [{"path": m.path, "ents": [{"f": e.hash_format, "c": e.hash_string, "s": e.structure_hash_string} for e in m.hash_entries], "prev": m.previous_path} for m in dirs], exp["dirs"])
    rm = parsed.process_info.root_media_hash
    chk("root", None if rm is None or not rm.hash_entries else [{"f": e.hash_format, "c": e.hash_string, "s": e.structure_hash_string} for e in rm.hash_entries], exp["root"])
    chk("refs", [{"path": r.path, "c4": r.reference_hash} for r in parsed.hash_list_references], exp["refs"])
    return bad


def _naive_utc(text):
    """the instant a written hashdate denotes, as naive UTC ISO text (the harness runs with TZ=UTC)"""
    if not text:
        return None
    d = datetime.datetime.fromisoformat(text)
    if d.tzinfo is not None:
        d = d.astimezone(datetime.timezone.utc).replace(tzinfo=None)
    return d.isoformat()


def compare_indep(m, exp):
    bad = []

    def chk(name, a, b):
        if a != b:
            bad.append("%s: %r != %r" % (name, a, b))

    cr = m["creator"]
    chk("hostname", cr.get("hostname"), exp["hostname"])
    chk("location", cr.get("location"), exp["location"])
    chk("comment", cr.get("comment"), exp["comment"])
    chk("authors", cr.get("authors"), exp["authors"])
    chk("process", m["proc"], exp["proc"])
    chk("patterns", m["pats"], exp["pats"])
    chk("files", [{"path": r["path"], "size": int(r["size"]) if r["size"] is not None else None, "ents": [{"f": e["f"], "d": e["d"], "a": e["a"], "hd": _naive_utc(e.get("hashdate"))} for e in r["ents"]], "prev": r["prev"]} for r in m["files"]], exp["files"])
    chk("dirs", [{"path": r["path"], "ents": [{"f": c["f"], "c": c["d"], "s": s["d"]} for c, s in zip(r["content"], r["structure"])], "prev": r["prev"]} for r in m["dirs"]], exp["dirs"])
    chk("root", None if m["root"] is None else [{"f": c["f"], "c": c["d"], "s": s["d"]} for c, s in zip(m["root"]["content"], m["root"]["structure"])], exp["root"])
    chk("refs", m["refs"], exp["refs"])
    return bad


def shape_of(m):
    """abstract document shape as MhlXml.ReadManifest sees it, from the independent reader"""
    recs = []
    # document order of <hash>/<directoryhash> is not kept by parse_manifest; the caller passes files/dirs in order
    return recs


def run_case(args):
    k, doc, seed = args
    rnd = random.Random("%s-%s" % (seed, k))
    wd = tempfile.mkdtemp(prefix="mhl-verif-xml-", dir=os.environ.get("VERIF_SCRATCH", "/dev/shm"))
    try:
        hl, exp = concretise(doc, rnd, wd)
        folder = os.path.join(wd, "ascmhl")
        os.makedirs(folder)
        path = os.path.join(folder, "0001_x_2021-03-04_100000Z.mhl")
        exc = ""
        try:
            HX.write_hash_list(hl, path)
            with open(path, "rb") as fh:
                data = fh.read()
        except Exception as e:  # writer failed
            return {"tid": "xml-%d" % k, "i": 0, "doc": doc, "written": False, "exc": "%s: %s" % (type(e).__name__, e), "xsd_ok": False, "tool_bad": ["writer raised"], "indep_bad": ["writer raised"], "read": {}, "leftover": []}
        ok, why = PJ.xsd_valid("manifest", data)
        m = PJ.parse_manifest(data)
        indep_bad = ["broken xml: %s" % m["broken"]] if "broken" in m else compare_indep(m, exp)
        try:
            parsed = HX.parse(path)
            tool_bad = compare_tool(parsed, exp)
        except Exception as e:
            tool_bad = ["reader raised %s: %s" % (type(e).__name__, e)]
        # abstract read-back shape (document order of records from a second ET pass)
        import xml.etree.ElementTree as ET
        recs = []
        if "broken" not in m:
            root = ET.fromstring(data)
            hs = root.find(PJ.NS + "hashes")
            for ch in (hs if hs is not None else []):
                t = ch.tag.split("}", 1)[-1]
                if t == "hash":
                    recs.append({"kind": "file", "fmts": [e.tag.split("}", 1)[-1] for e in ch if e.tag.split("}", 1)[-1] in oracle.FORMATS], "prev": ch.find(PJ.NS + "previousPath") is not None})
                else:
                    recs.append({"kind": "dir", "fmts": [e.tag.split("}", 1)[-1] for e in (ch.find(PJ.NS + "content") if ch.find(PJ.NS + "content") is not None else [])], "prev": ch.find(PJ.NS + "previousPath") is not None})
            read = {"authors": len(m["creator"].get("authors", [])), "location": "location" in m["creator"], "comment": "comment" in m["creator"],
                    "root": [e["f"] for e in m["root"]["content"]] if m["root"] else [], "npats": len(m["pats"]), "recs": recs, "nrefs": len(m["refs"])}
        else:
            read = {}
        # chain round trip with n entries
        chain_bad = []
        n = 1 + k % 3
        chain = MHLChain(os.path.join(folder, "ascmhl_chain.xml"))
        gens = []
        for j in range(n):
            g = MHLChainGeneration(j + 1, "000%d_%s.mhl" % (j + 1, text(rnd, cls=rnd.choice([0, 1, 2])).replace("/", "_")), "c4", digest_text("c4", rnd))
            chain.append_generation(g)
            gens.append({"n": str(j + 1), "name": g.ascmhl_filename, "c4": g.hash_string})
        hl.generation_number = n + 1
        CX.write_chain(chain, hl)
        with open(chain.file_path, "rb") as fh:
            cdata = fh.read()
        cok, cwhy = PJ.xsd_valid("directory", cdata)
        back = CX.parse(chain.file_path)
        got = [{"n": str(g.generation_number), "name": g.ascmhl_filename, "c4": g.hash_string} for g in back.generations]
        want = gens + [{"n": str(n + 1), "name": os.path.basename(path), "c4": oracle.digest("c4", data)}]
        if got != want:
            chain_bad.append("tool chain reader: %r != %r" % (got, want))
        ind = PJ.parse_chain(cdata).get("entries", [])
        if [{"name": e["name"], "c4": e["c4"]} for e in ind] != [{"name": e["name"], "c4": e["c4"]} for e in want]:
            chain_bad.append("independent chain reader differs")
        leftover = sorted(f for f in os.listdir(folder) if f not in (os.path.basename(path), "ascmhl_chain.xml"))
        return {"tid": "xml-%d" % k, "i": 0, "doc": doc, "written": True, "exc": exc, "xsd_ok": ok, "author_names": [a["name"] for a in exp["authors"]], "op": {"op": "write"}, "exit": 0, "xsd_why": why[:200], "chain_xsd": cok,
                "tool_bad": tool_bad[:3], "indep_bad": indep_bad[:3], "chain_bad": chain_bad[:2], "read": read, "leftover": leftover}
    finally:
        shutil.rmtree(wd, ignore_errors=True)
