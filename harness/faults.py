"""Fault injection, harness-side only: crash points inside create's commit (C15) and tampering
with committed history files (C05).

The writers' module-level names `open` (hashlist_xml_parser, chain_xml_parser) and os.mkdir /
os.replace / os.rename are replaced by wrappers that perform every write straight on the file
descriptor (no hidden user-space buffer) and raise a BaseException at the k-th operation."""
import builtins
import os

import ascmhl.chain_xml_parser
import ascmhl.hashlist_xml_parser


class Crash(BaseException):
    pass


class Injector:
    """counts file-system operations of the commit; crashes at operation `at` (0-based) in `mode`
    none    : the operation does not happen
    partial : (writes only) half of the data is written
    full    : the operation happens, then the process dies"""

    def __init__(self, at=None, mode="none", buffered=False):
        """buffered=False: every write call goes straight to the file descriptor (each write is a crash point that can
        be cut short).  buffered=True: io.BufferedWriter semantics - written data only reaches the file at flush(),
        close() or when more than 8 KiB are pending, and is lost when the process dies before that."""
        self.at, self.mode, self.buffered = at, mode, buffered
        self.n = 0
        self.events = []
        self._saved = None

    # -- bookkeeping ------------------------------------------------------------------
    def _tick(self, kind, path, extra=None):
        """returns 'go' / 'skip' / 'half' ; raises after the op when mode == full (handled by caller)"""
        idx = self.n
        self.n += 1
        self.events.append({"k": kind, "p": path, "x": extra or ""})
        if self.at is not None and idx == self.at:
            return self.mode
        return "go"

    class _File:
        def __init__(self, inj, path, mode):
            self.inj, self.path = inj, path
            self.closed = False
            flags = os.O_WRONLY | os.O_CREAT | (os.O_TRUNC if "w" in mode else os.O_APPEND)
            self.fd = os.open(path, flags, 0o644)
            self.buf = b""

        def _drain(self, part=False):
            data, self.buf = self.buf, b""
            if data:
                os.write(self.fd, data[: max(1, len(data) // 2)] if part else data)

        def write(self, data):
            act = self.inj._tick("write", self.path, len(data))
            if self.inj.buffered:
                if act != "go":
                    raise Crash()          # whatever is pending in the buffer dies with the process
                self.buf += bytes(data)
                if len(self.buf) > 8192:
                    self._drain()
                return len(data)
            if act == "none":
                raise Crash()
            if act == "partial":
                os.write(self.fd, data[: max(1, len(data) // 2)])
                raise Crash()
            os.write(self.fd, data)
            if act == "full":
                raise Crash()
            return len(data)

        def flush(self):
            if not self.inj.buffered:
                return
            act = self.inj._tick("flush", self.path)
            if act == "none":
                raise Crash()
            if act == "partial":
                self._drain(part=True)
                raise Crash()
            self._drain()
            if act == "full":
                raise Crash()

        def close(self):
            if self.closed:
                return
            act = self.inj._tick("close", self.path)
            if act == "none":
                raise Crash()
            if act == "partial":
                if self.inj.buffered:
                    self._drain(part=True)
                raise Crash()
            if self.inj.buffered:
                self._drain()
            os.close(self.fd)
            self.closed = True
            if act == "full":
                raise Crash()

        def __enter__(self):
            return self

        def __exit__(self, *a):
            self.close()
            return False

    def _open(self, path, mode="r", *a, **kw):
        if any(c in mode for c in "wa+x"):
            act = self._tick("open", path)
            if act in ("none", "partial"):
                raise Crash()
            f = Injector._File(self, path, mode)
            if act == "full":
                raise Crash()
            return f
        return builtins.open(path, mode, *a, **kw)

    def __enter__(self):
        inj = self
        self._saved = (os.mkdir, os.replace, os.rename,
                       getattr(ascmhl.hashlist_xml_parser, "open", None), getattr(ascmhl.chain_xml_parser, "open", None))
        o_mkdir, o_replace, o_rename = os.mkdir, os.replace, os.rename

        def mkdir(path, *a, **kw):
            act = inj._tick("mkdir", os.fspath(path))
            if act in ("none", "partial"):
                raise Crash()
            o_mkdir(path, *a, **kw)
            if act == "full":
                raise Crash()

        def mk2(orig, kind):
            def fn(src, dst, *a, **kw):
                act = inj._tick(kind, os.fspath(src), os.fspath(dst))
                if act in ("none", "partial"):
                    raise Crash()
                orig(src, dst, *a, **kw)
                if act == "full":
                    raise Crash()
            return fn

        os.mkdir = mkdir
        os.replace = mk2(o_replace, "replace")
        os.rename = mk2(o_rename, "replace")
        ascmhl.hashlist_xml_parser.open = self._open
        ascmhl.chain_xml_parser.open = self._open
        return self

    def __exit__(self, *a):
        os.mkdir, os.replace, os.rename, h, c = self._saved
        for mod, orig in ((ascmhl.hashlist_xml_parser, h), (ascmhl.chain_xml_parser, c)):
            if orig is None:
                try:
                    del mod.open
                except AttributeError:
                    pass
            else:
                mod.open = orig
        return False
