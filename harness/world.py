"""Concretisation of abstract scenarios and controlled execution of the real code.

An abstract path is a tuple of abstract names (root = ()).  A World maps abstract names to
concrete names (several naming classes), abstract content ids to bytes, lives on tmpfs, runs
ascmhl commands in-process (click CliRunner, freezegun clock), and takes complete file-system
snapshots around every command.  All instrumentation is harness-side.
"""
import datetime
import hashlib
import os
import random
import shutil
import stat
import sys
import time

REPO = os.environ.get("VERIF_REPO", "/repo")
if REPO not in sys.path:
    sys.path.insert(0, REPO)
SCRATCH = os.environ.get("VERIF_SCRATCH", "/dev/shm")

os.environ["TZ"] = "UTC"
time.tzset()

import platform  # noqa: E402

platform.node = lambda: "verifhost.local"

from click.testing import CliRunner  # noqa: E402
from freezegun import freeze_time  # noqa: E402

import ascmhl.commands  # noqa: E402

assert os.path.realpath(os.path.dirname(os.path.dirname(ascmhl.commands.__file__))) == os.path.realpath(REPO), (
    "ascmhl imported from %s, expected %s" % (ascmhl.commands.__file__, REPO)
)

from . import oracle  # noqa: E402

EPOCH = datetime.datetime(2021, 3, 4, 10, 0, 0)
PIN_MTIME = 1600000000  # 2020-09-13T12:26:40Z, every media file / directory is pinned to this

# ---------------------------------------------------------------------------------------------
# audit hook: every mutating file-system call issued while a command runs
_AUDIT = {"on": False, "events": []}
_WRITE_EVENTS = {
    "os.mkdir",
    "os.rename",
    "os.remove",
    "os.rmdir",
    "os.utime",
    "os.chmod",
    "os.chown",
    "os.truncate",
    "os.link",
    "os.symlink",
    "shutil.rmtree",
    "shutil.move",
    "shutil.copyfile",
    "shutil.copytree",
}


def _audit(event, args):
    if not _AUDIT["on"]:
        return
    if event == "open":
        path, mode, flags = args
        w = False
        if isinstance(mode, str):
            w = any(ch in mode for ch in "wax+")
        elif flags is not None:
            w = bool(flags & (os.O_WRONLY | os.O_RDWR | os.O_CREAT | os.O_TRUNC | os.O_APPEND))
        if w and isinstance(path, (str, bytes)):
            _AUDIT["events"].append(("open-w", os.path.abspath(os.fsdecode(path))))
    elif event in _WRITE_EVENTS:
        a = args[0] if args else None
        if isinstance(a, (str, bytes)):
            extra = ()
            if event in ("os.rename", "os.link", "os.symlink") and len(args) > 1 and isinstance(args[1], (str, bytes)):
                extra = (os.path.abspath(os.fsdecode(args[1])),)
            _AUDIT["events"].append((event, os.path.abspath(os.fsdecode(a))) + extra)


sys.addaudithook(_audit)

# ---------------------------------------------------------------------------------------------
# names and contents

NAME_CLASSES = ["plain", "space", "unicode", "xml", "mixed", "nfd", "prefix", "case", "hidden", "bslash"]


def concrete_name(abstract: str, cls: str, is_file: bool) -> str:
    """Injective, order-preserving enough for our purposes; never matches a default pattern."""
    if abstract == "dsstore":
        return ".DS_Store"
    ext = ".mov" if is_file else ""
    if abstract.endswith("_t"):  # abstract names ending in _t get the '.tmp' extension (glob scope)
        ext = ".tmp"
    base = abstract
    if cls == "plain":
        return base + ext
    if cls == "space":
        return base + " clip 01" + ext
    if cls == "unicode":
        return base + "_Ünï-日本" + ext
    if cls == "xml":
        return base + "&<x>'q\"" + ext
    if cls == "nfd":       # decomposed characters, as macOS writes them: not stable under Unicode normalisation
        return base + "_cafe\u0301 A\u030angstro\u0308m" + ext
    if cls == "prefix":    # every name is a string prefix of the names that sort before it in the abstract alphabet:
        # 'd' -> nnn...(23), 'a' -> nnn...(26), so a sibling's name starts with the name of a nested history's folder
        return "n" * (27 - (ord(base[0]) - ord("a"))) + base[1:] + ext
    if cls == "case":      # all names are the same word, they differ in upper / lower case only
        word = "clipnamestuv"
        bits = int.from_bytes(hashlib.md5(abstract.encode()).digest()[:2], "big") % (1 << len(word))
        return "".join(ch.upper() if (bits >> i) & 1 else ch for i, ch in enumerate(word)) + ext
    if cls == "hidden":    # every name starts with a dot (hidden files and folders)
        return "." + base + ext
    if cls == "bslash":    # a backslash inside the name: legal on POSIX, a separator elsewhere
        return base + "\\b" + ext
    if cls == "mixed":
        k = sum(ord(c) for c in abstract) % 4
        return concrete_name(abstract, NAME_CLASSES[k], is_file)
    raise ValueError(cls)


def content_bytes(cid: str, salt: str = "") -> bytes:
    if cid == "EMPTY":
        return b""
    if cid.startswith("big"):
        n = {"bigm1": 2**20 - 1, "big0": 2**20, "bigp1": 2**20 + 1, "big2": 2 * 2**20 + 7}[cid]
        seed = hashlib.sha256((cid + salt).encode()).digest()
        return (seed * (n // 32 + 1))[:n]
    return ("content:%s:%s\n" % (cid, salt)).encode()


class World:
    """One concrete file-system instance of an abstract scenario."""

    _counter = 0

    def __init__(self, files, dirs, name_class="plain", location="plain", salt="", seed=0):
        """files, dirs: iterables of abstract paths (tuples) that may ever exist."""
        World._counter += 1
        self.files = sorted(set(tuple(p) for p in files))
        self.dirs = sorted(set(tuple(p) for p in dirs))
        self.name_class = name_class
        self.salt = salt
        self.seed = seed
        self.base = os.path.join(SCRATCH, "mhl-verif-%d-%d" % (os.getpid(), World._counter))
        if os.path.exists(self.base):
            shutil.rmtree(self.base)
        os.makedirs(self.base)
        # location classes (C13): where the abstract root lives
        loc = {
            "plain": "mnt/vol",
            "deep": "mnt/a/b/c/d/e/vol",
            "ascmhl_parent": "mnt/ascmhl/vol",
            "dsstore_parent": "mnt/.DS_Store/vol",
            "pattern_parent": "mnt/k_t.tmp/vol",
            "x_parent": "mnt/%s/vol" % concrete_name("x", name_class, True),
            "link_parent": "mnt/link/vol",      # 'link' is a symbolic link to another directory: abspath and realpath of everything differ
            "link_root": "mnt/vol",             # the root folder itself is a symbolic link to the tree
        }[location]
        self.root = os.path.join(self.base, loc)
        self.hidden = None
        if location == "link_parent":
            self.hidden = os.path.join(self.base, "real")
            os.makedirs(self.hidden)
            os.makedirs(os.path.join(self.base, "mnt"))
            os.symlink(self.hidden, os.path.join(self.base, "mnt", "link"))
        if location == "link_root":
            self.hidden = os.path.join(self.base, "real")
            os.makedirs(os.path.join(self.hidden, "vol"))
            os.makedirs(os.path.join(self.base, "mnt"))
            os.symlink(os.path.join(self.hidden, "vol"), self.root)
        else:
            os.makedirs(self.root)
        self.flat_dest = os.path.join(self.base, "flatout")
        self.names = {}  # abstract name -> concrete
        self.rnames = {}
        for p in self.files:
            self._name(p[-1], True)
        for p in self.dirs:
            self._name(p[-1], False)
        self.clock = EPOCH
        self.digest_table = {}  # digest string -> (fmt, cid)
        self._cids = set()
        self.runner = CliRunner(mix_stderr=False)
        self.listing_perm = None  # seed for directory listing permutation (C13)

    # -- naming ---------------------------------------------------------------------------
    def _name(self, a, is_file):
        if a not in self.names:
            c = concrete_name(a, self.name_class, is_file)
            self.names[a] = c
            assert c not in self.rnames, "naming not injective"
            self.rnames[c] = a
        return self.names[a]

    def cpath(self, apath, root=None):
        return os.path.join(root or self.root, *[self.names[a] for a in apath]) if apath else (root or self.root)

    def crel(self, apath):
        return "/".join(self.names[a] for a in apath) if apath else "."

    def apath_of_rel(self, rel):
        """concrete POSIX relative path -> abstract path tuple (unknown components prefixed '?')"""
        if rel in (".", ""):
            return ()
        return tuple(self.rnames.get(c, "?" + c) for c in rel.split("/"))

    # -- contents -------------------------------------------------------------------------
    def bytes_of(self, cid):
        b = content_bytes(cid, self.salt)
        if cid not in self._cids:
            self._cids.add(cid)
            for fmt in oracle.FORMATS:
                self.digest_table[oracle.digest(fmt, b)] = (fmt, cid)
            self.digest_table["sha256:" + hashlib.sha256(b).hexdigest()] = ("sha256", cid)
        return b

    def cid_of_sha256(self, sha):
        e = self.digest_table.get("sha256:" + sha)
        return e[1] if e else "UNKNOWN"

    # -- environment operations --------------------------------------------------------
    def write_file(self, apath, cid):
        p = self.cpath(apath)
        os.makedirs(os.path.dirname(p), exist_ok=True)
        with open(p, "wb") as fh:
            fh.write(self.bytes_of(cid))

    def mkdir(self, apath):
        os.makedirs(self.cpath(apath), exist_ok=True)

    def delete(self, apath):
        p = self.cpath(apath)
        if os.path.isdir(p):
            shutil.rmtree(p)
        elif os.path.exists(p):
            os.remove(p)

    def rename(self, a, b):
        pb = self.cpath(b)
        os.makedirs(os.path.dirname(pb), exist_ok=True)
        os.rename(self.cpath(a), pb)

    def tick(self, seconds=1):
        self.clock += datetime.timedelta(seconds=seconds)

    def pin_mtimes(self, exclude=()):
        for dp, dn, fn in os.walk(self.base):
            for n in fn + dn:
                p = os.path.join(dp, n)
                if p in exclude:
                    continue
                try:
                    t = PIN_MTIME - 1000 if p in getattr(self, "older", ()) else PIN_MTIME      # files that keep an older time stamp than their neighbours
                    os.utime(p, (t, t), follow_symlinks=False)
                except OSError:
                    pass
        os.utime(self.base, (PIN_MTIME, PIN_MTIME))

    # -- snapshots --------------------------------------------------------------------------
    def snapshot(self):
        """complete state below base: path -> (type, sha256, size, mtime_ns, mode)"""
        snap = {}
        for dp, dn, fn in os.walk(self.base, followlinks=self.hidden is not None):
            if self.hidden is not None and (dp == self.hidden or dp.startswith(self.hidden + os.sep)):
                dn[:] = []
                continue            # the tree is looked at through the link only
            if self.hidden is not None and dp == self.base:
                dn[:] = [n for n in dn if n != "real"]
            for n in dn:
                p = os.path.join(dp, n)
                st = os.lstat(p)
                snap[p] = ("d", "", 0, st.st_mtime_ns, stat.S_IMODE(st.st_mode))
            for n in fn:
                p = os.path.join(dp, n)
                st = os.lstat(p)
                with open(p, "rb") as fh:
                    h = hashlib.sha256(fh.read()).hexdigest()
                snap[p] = ("f", h, st.st_size, st.st_mtime_ns, stat.S_IMODE(st.st_mode))
        return snap

    @staticmethod
    def delta(pre, post):
        """list of (kind, path) with kind in created/removed/content/meta"""
        out = []
        for p in sorted(set(pre) | set(post)):
            a, b = pre.get(p), post.get(p)
            if a is None:
                out.append(("created", p))
            elif b is None:
                out.append(("removed", p))
            elif a[:3] != b[:3]:
                out.append(("content", p))
            elif a[3:] != b[3:]:
                out.append(("meta", p))
        return out

    # -- command execution ----------------------------------------------------------------
    def run(self, command, args, cwd=None, clock=None):
        """run a click command object in-process; returns dict(exit, out, err, exc, writes)"""
        import ascmhl.logger

        ascmhl.logger.verbose_logging = False
        _AUDIT["events"] = []
        old_cwd = os.getcwd()
        if cwd:
            os.chdir(cwd)
        patched = self._patch_listing()
        try:
            with freeze_time(clock or self.clock, tz_offset=getattr(self, "tzoff", 0)):      # tzoff: naive local time = UTC + tzoff hours
                _AUDIT["on"] = True
                try:
                    res = self.runner.invoke(command, args, catch_exceptions=True)
                finally:
                    _AUDIT["on"] = False
        finally:
            self._unpatch_listing(patched)
            os.chdir(old_cwd)
        exc = None
        if res.exception is not None and not isinstance(res.exception, SystemExit):
            exc = "%s: %s" % (type(res.exception).__name__, res.exception)
        return {
            "exit": res.exit_code,
            "out": res.stdout,
            "err": res.stderr,
            "exc": exc,
            "writes": list(_AUDIT["events"]),
        }

    # -- listing-order permutation (C13) ----------------------------------------------------
    def _patch_listing(self):
        if self.listing_perm is None:
            return None
        rnd = random.Random(self.listing_perm)
        orig_listdir, orig_scandir = os.listdir, os.scandir

        def listdir(path="."):
            names = orig_listdir(path)
            names.sort()
            random.Random((self.listing_perm, str(path)).__repr__()).shuffle(names)
            return names

        class _Scan:
            def __init__(self, path):
                it = orig_scandir(path)
                self.entries = sorted(list(it), key=lambda e: e.name)
                it.close()
                random.Random((rnd.random(), str(path)).__repr__()).shuffle(self.entries)

                self.pos = 0

            def __iter__(self):
                return self

            def __next__(self):
                if self.pos >= len(self.entries):
                    raise StopIteration
                self.pos += 1
                return self.entries[self.pos - 1]

            def __enter__(self):
                return self

            def __exit__(self, *a):
                return False

            def close(self):
                pass

        def scandir(path="."):
            return _Scan(path)

        os.listdir, os.scandir = listdir, scandir
        return (orig_listdir, orig_scandir)

    def _unpatch_listing(self, patched):
        if patched:
            os.listdir, os.scandir = patched

    def destroy(self):
        shutil.rmtree(self.base, ignore_errors=True)
        shutil.rmtree(self.base + "-aux", ignore_errors=True)

    def aux_path(self, name):
        """a place for the harness' own input files (pattern files): outside the observed tree"""
        os.makedirs(self.base + "-aux", exist_ok=True)
        return os.path.join(self.base + "-aux", name)
