"""compact rendering of a TLC counterexample: the behaviour and the last observation"""
import re


def summarize(out):
    m = list(re.finditer(r"^/\\ behav = (.*?)(?=^/\\ |\Z)", out, re.M | re.S))
    beh = re.sub(r"\s+", " ", m[-1].group(1)) if m else "?"
    m2 = list(re.finditer(r"ob \|->\s*\[(.*?)\]\s*,\s*pre", out, re.S))
    ob = re.sub(r"\s+", " ", m2[-1].group(1)) if m2 else "?"
    return "behav=%s\n ob=%s" % (beh[:1500], ob[:600])
