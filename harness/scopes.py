"""Model scopes of spec/MhlHistoryMC.tla: constants, which operations are enabled, bounds.

Each scope renders to an MC_<name>.tla module (constants as definitions) and .cfg files for
(a) exhaustive checking with invariants and (b) behaviour export.
"""
import itertools
import os

from .tlc import tla, Fn, Raw

ALL_INVARIANTS = [
    "Inv_C02_RecordSet", "Inv_C02_Digests", "Inv_C02_SingleFiles",
    "Inv_C03_NoFalseAlarm", "Inv_C03_Altered", "Inv_C03_Removed", "Inv_C03_Added", "Inv_C03_Quiet",
    "Inv_C04_Judged", "Inv_C04_UnalteredOk",
    "Inv_C06_AppendOnly", "Inv_C06_Numbered",
    "Inv_C08_Partition", "Inv_C08_ChildRoot", "Inv_C08_Refs", "Inv_C08_WhoWrites",
    "Inv_C12_Excluded", "Inv_C12_Accumulate", "Inv_NoInternal",
    "Inv_C09_Identical", "Inv_C09_Detects", "Inv_C17_Renamed", "Inv_C17_Altered",
    "Inv_C18_Summary", "Inv_C18_VerifyPL", "Inv_C19_Info", "Inv_C19_InfoSF", "Inv_C14_Frame", "Inv_C14_Scope",
]


def nonempty_subsets(xs):
    out = []
    for r in range(1, len(xs) + 1):
        for c in itertools.combinations(xs, r):
            out.append(frozenset(c))
    return out


def P(*names):
    return tuple(names)


SCOPES = {
    # everything at once (thorough tier, random walks only): 6 files, 4 directories, 4 roots, 3 formats, patterns, every command
    "all": dict(
        fmts=["c4", "md5", "xxh64"], files=[P("a"), P("x"), P("k_t"), P("d", "b"), P("d", "e", "c"), P("d2", "f")], dirs=[P("d"), P("d", "e"), P("d2"), P("g")],
        init={P("a"): "c1", P("x"): "c2", P("k_t"): "c1", P("d"): "DIR", P("d", "b"): "c2", P("d", "e"): "DIR", P("d", "e", "c"): "c3", P("d2"): "DIR", P("d2", "f"): "c1", P("g"): "DIR"},
        contents=["c1", "c2", "c3", "EMPTY"], roots=[P(), P("d"), P("d", "e"), P("d2")],
        fmtchoices=[["md5"], ["c4", "xxh64"], ["c4", "md5", "xxh64"], ["xxh64"]], pats=[(), ("n:x",), ("g:tmp",)],
        sf=[frozenset({P("d", "e", "c")}), frozenset({P("d")}), frozenset({P("a"), P("d2", "f")})],
        ops=["alter", "delete", "mkdir", "create", "createsf", "verify", "diff", "verifysf", "verifydh", "verifydhco", "verifydhopt", "flatten", "verifypl", "info", "infosf", "hash", "xsdcheck", "nodh"],
        maxgens=40, maxops=14, keepsnap=True, patnames={"n:x": ["x"], "g:tmp": ["k_t"]},
        mutable=[P("a"), P("x"), P("d", "b"), P("d", "e", "c"), P("d2", "f"), P("g")],
    ),
    # one file, three formats, two contents: every format sequence over <= 3 generations
    "fmt3": dict(
        fmts=["md5", "sha1", "xxh64"], files=[P("a")], dirs=[], init={P("a"): "c1"}, contents=["c1", "c2"],
        roots=[P()], fmtchoices="all", pats=[()], sf=[], ops=["alter", "create"], maxgens=3, maxops=5, keepsnap=False,
    ),
    # the same in a nested history, folder mode and -sf mode
    "fmt3n": dict(
        fmts=["c4", "md5", "sha1"], files=[P("d", "a")], dirs=[P("d")], init={P("d"): "DIR", P("d", "a"): "c1"},
        contents=["c1", "c2"], roots=[P(), P("d")], fmtchoices="all", pats=[()], sf=[frozenset({P("d", "a")})],
        ops=["alter", "create", "createsf"], maxgens=4, maxops=5, keepsnap=False,
    ),
    "fmt4": dict(
        fmts=["c4", "md5", "sha1", "xxh64"], files=[P("a")], dirs=[], init={P("a"): "c1"}, contents=["c1", "c2"],
        roots=[P()], fmtchoices="all", pats=[()], sf=[], ops=["alter", "create"], maxgens=3, maxops=5, keepsnap=False,
    ),
    # -sf naming two folders that hold files at the same relative sub-path, a folder together with a file inside the other
    "sf2": dict(
        fmts=["md5"], files=[P("a"), P("d", "s", "b"), P("e", "s", "b"), P("d", "k"), P("e", "k")], dirs=[P("d"), P("e"), P("d", "s"), P("e", "s")],
        init={P("a"): "c1", P("d"): "DIR", P("d", "s"): "DIR", P("d", "s", "b"): "c2", P("d", "k"): "c1", P("e"): "DIR", P("e", "s"): "DIR", P("e", "s", "b"): "c3", P("e", "k"): "c2"},
        contents=["c1", "c2", "c3"], roots=[P()], fmtchoices=[["md5"]], pats=[()],
        sf=[frozenset({P("d"), P("e")}), frozenset({P("d"), P("e", "s", "b")}), frozenset({P("d", "s"), P("e", "s")}), frozenset({P("d", "k"), P("e", "k")})],
        ops=["alter", "create", "createsf", "verify"], maxgens=3, maxops=4, keepsnap=False, mutable=[P("e", "s", "b"), P("d", "k")],
    ),
    # a small tree: files at two levels, an empty directory; create / verify / diff and all mutations
    "tree": dict(
        fmts=["md5", "xxh64"], files=[P("a"), P("d", "b"), P("d", "n")], dirs=[P("d"), P("e")],
        init={P("a"): "c1", P("d"): "DIR", P("d", "b"): "c2", P("e"): "DIR"}, contents=["c1", "c2"],
        roots=[P()], fmtchoices=[["md5"], ["xxh64"]], pats=[()], sf=[frozenset({P("d", "b")}), frozenset({P("d")}), frozenset({P("a"), P("d")})],
        ops=["alter", "delete", "mkdir", "create", "createsf", "verify", "diff", "verifysf"], maxgens=2, maxops=5, keepsnap=False,
    ),
    # directory hashes in all six formats and their combinations, renames / edits / adds / removes at two levels
    "dh6": dict(
        fmts=["c4", "md5", "sha1", "xxh128", "xxh3", "xxh64"], files=[P("a"), P("a2"), P("d", "b"), P("d", "c"), P("d", "e", "f")], dirs=[P("d"), P("d", "e"), P("g")],
        init={P("a"): "c1", P("d"): "DIR", P("d", "b"): "c2", P("d", "e"): "DIR", P("g"): "DIR"}, contents=["c1", "c2", "EMPTY"],
        roots=[P()], fmtchoices=[["c4"], ["md5"], ["sha1"], ["xxh128"], ["xxh3"], ["xxh64"], ["c4", "md5", "sha1", "xxh128", "xxh3", "xxh64"], ["c4", "xxh64"], ["md5", "sha1", "xxh3"]],
        pats=[()], sf=[], ops=["alter", "delete", "rename", "mkdir", "create", "verifydhco", "verifydh"], maxgens=4, maxops=8, keepsnap=True,
    ),
    # every command on a small flat tree (C14, C18, C19)
    "cmds": dict(
        fmts=["md5", "sha1"], files=[P("a"), P("d", "b")], dirs=[P("d")],
        init={P("a"): "c1", P("d"): "DIR", P("d", "b"): "c2"}, contents=["c1", "c2"],
        roots=[P()], fmtchoices=[["md5"], ["sha1"], ["md5", "sha1"]], pats=[()], sf=[frozenset({P("d", "b")})],
        ops=["alter", "delete", "create", "createsf", "verify", "diff", "verifysf", "flatten", "verifypl", "info", "infosf", "hash", "verifydh", "verifydhco", "nodh", "xsdcheck"],
        maxgens=3, maxops=6, keepsnap=True,
    ),
    # flatten and verify -pl over flat histories with changing formats, failed entries, partial -sf generations
    "flat": dict(
        fmts=["c4", "md5", "sha1"], files=[P("a"), P("d", "b")], dirs=[P("d")],
        init={P("a"): "c1", P("d"): "DIR", P("d", "b"): "c2"}, contents=["c1", "c2"],
        roots=[P()], fmtchoices=[["md5"], ["sha1"], ["c4"], ["md5", "sha1"], ["c4", "md5"]], pats=[()], sf=[frozenset({P("d", "b")}), frozenset({P("a")})],
        ops=["alter", "delete", "create", "createsf", "flatten", "verifypl"],
        maxgens=3, maxops=7, keepsnap=False,
    ),
    # the same, reduced so that every behaviour of up to five operations can be exported (alter between generations: failed records)
    "flatx": dict(
        fmts=["md5", "sha1"], files=[P("a"), P("d", "b")], dirs=[P("d")],
        init={P("a"): "c1", P("d"): "DIR", P("d", "b"): "c2"}, contents=["c1", "c2"],
        roots=[P()], fmtchoices=[["md5"], ["sha1"]], pats=[()], sf=[],
        ops=["alter", "create", "flatten", "verifypl"], maxgens=3, maxops=5, keepsnap=False,
    ),
    # one mutable file, six operations: a failed entry in one generation, the file restored, a NEW format in a later generation, flatten
    "flatf": dict(
        fmts=["md5", "sha1"], files=[P("a"), P("d", "b")], dirs=[P("d")],
        init={P("a"): "c1", P("d"): "DIR", P("d", "b"): "c2"}, contents=["c1", "c2"],
        roots=[P()], fmtchoices=[["md5"], ["sha1"]], pats=[()], sf=[],
        ops=["alter", "create", "flatten", "verifypl"], maxgens=3, maxops=6, keepsnap=False, mutable=[P("a")],
    ),
    # flatten of a history that carries an ignore pattern: the packing list inherits it, verify -pl does not report the ignored file
    "flatign": dict(
        fmts=["md5"], files=[P("a"), P("x"), P("d", "x")], dirs=[P("d")],
        init={P("a"): "c1", P("x"): "c1", P("d"): "DIR", P("d", "x"): "c2"}, contents=["c1", "c2"],
        roots=[P()], fmtchoices=[["md5"]], pats=[(), ("n:x",)], sf=[],
        ops=["alter", "create", "flatten", "verifypl"], maxgens=2, maxops=5, keepsnap=False, mutable=[P("a"), P("x")],
        patnames={"n:x": ["x"]},
    ),
    # two sibling histories two levels below the top (the order of the references must not depend on the enumeration order)
    "sib2": dict(
        fmts=["md5"], files=[P("a"), P("d", "e", "c"), P("d", "g", "h")], dirs=[P("d"), P("d", "e"), P("d", "g")],
        init={P("a"): "c1", P("d"): "DIR", P("d", "e"): "DIR", P("d", "e", "c"): "c1", P("d", "g"): "DIR", P("d", "g", "h"): "c2"},
        contents=["c1", "c2"], roots=[P(), P("d", "e"), P("d", "g")], fmtchoices=[["md5"]], pats=[()], sf=[],
        ops=["alter", "create", "verify"], maxgens=6, maxops=5, keepsnap=False, mutable=[P("a")],
        init_creates=[P("d", "g"), P("d", "e")],
    ),
    # info / info -sf over nested histories
    "inf": dict(
        fmts=["md5", "sha1"], files=[P("a"), P("d", "b"), P("d", "e", "c")], dirs=[P("d"), P("d", "e"), P("d2")],
        init={P("a"): "c1", P("d"): "DIR", P("d", "b"): "c2", P("d", "e"): "DIR", P("d", "e", "c"): "c1", P("d2"): "DIR"}, contents=["c1", "c2"],
        roots=[P(), P("d"), P("d", "e"), P("d2")], fmtchoices=[["md5"], ["sha1"], ["md5", "sha1"]], pats=[()], sf=[frozenset({P("d", "b")}), frozenset({P("d", "e", "c")})],
        ops=["alter", "create", "createsf", "info", "infosf"],
        maxgens=4, maxops=7, keepsnap=False, mutable=[P("a"), P("d", "e", "c")],
    ),
    # nested histories: root > d > d/e, sibling d2 (name is a prefix extension of d)
    "nest": dict(
        fmts=["md5"], files=[P("a"), P("d", "b"), P("d", "e", "c"), P("d2", "f")], dirs=[P("d"), P("d", "e"), P("d2")],
        init={P("a"): "c1", P("d"): "DIR", P("d", "b"): "c1", P("d", "e"): "DIR", P("d", "e", "c"): "c1", P("d2"): "DIR", P("d2", "f"): "c1"},
        contents=["c1", "c2"], roots=[P(), P("d"), P("d", "e"), P("d2")], fmtchoices=[["md5"]], pats=[()],
        sf=[frozenset({P("d", "e", "c")}), frozenset({P("d", "b")}), frozenset({P("a"), P("d2", "f")}), frozenset({P("d"), P("d2", "f")})],
        ops=["alter", "delete", "create", "createsf", "verify", "diff", "nodh"], maxgens=3, maxops=5, keepsnap=False,
        mutable=[P("a"), P("d", "e", "c")],
    ),
    # removal of a whole directory that holds a nested history, and its re-creation
    "rmt": dict(
        fmts=["md5"], files=[P("a"), P("d", "b")], dirs=[P("d")],
        init={P("a"): "c1", P("d"): "DIR", P("d", "b"): "c1"}, contents=["c1", "c2"],
        roots=[P(), P("d")], fmtchoices=[["md5"]], pats=[()], sf=[],
        ops=["alter", "rmtree", "mkdir", "create", "verify", "diff"], maxgens=4, maxops=6, keepsnap=False,
        mutable=[P("d"), P("d", "b")],
    ),
    # a chain of four nested histories (root > d > d/e > d/e/g): routing and references beyond grandchildren
    "deep": dict(
        fmts=["md5"], files=[P("a"), P("d", "b"), P("d", "e", "c"), P("d", "e", "g", "h")], dirs=[P("d"), P("d", "e"), P("d", "e", "g")],
        init={P("a"): "c1", P("d"): "DIR", P("d", "b"): "c1", P("d", "e"): "DIR", P("d", "e", "c"): "c1", P("d", "e", "g"): "DIR", P("d", "e", "g", "h"): "c1"},
        contents=["c1", "c2"], roots=[P(), P("d"), P("d", "e"), P("d", "e", "g")], fmtchoices=[["md5"]], pats=[()],
        sf=[frozenset({P("d", "e", "g", "h")})],
        ops=["alter", "create", "createsf", "verify", "diff"], maxgens=12, maxops=8, keepsnap=False,
        mutable=[P("d", "e", "g", "h")],
        init_creates=[P(), P("d", "e", "g"), P("d", "e"), P("d")],      # root sealed flat first, then the chain innermost first
    ),
    # long histories: more than ten generations in one history (flat and nested)
    "long": dict(
        fmts=["md5"], files=[P("a"), P("d", "b")], dirs=[P("d")],
        init={P("a"): "c1", P("d"): "DIR", P("d", "b"): "c1"}, contents=["c1", "c2"],
        roots=[P(), P("d")], fmtchoices=[["md5"]], pats=[()], sf=[frozenset({P("d", "b")}), frozenset({P("a")})],
        ops=["alter", "create", "createsf"], maxgens=14, maxops=16, keepsnap=False, mutable=[P("a")],
        init_creates=[P()] * 9 + [P("d")],
    ),
    # the smallest trees: one file and one empty directory, everything removable (sealed trees without files)
    "tiny": dict(
        fmts=["md5"], files=[P("a")], dirs=[P("e")], init={P("a"): "c1", P("e"): "DIR"}, contents=["c1", "c2"],
        roots=[P()], fmtchoices=[["md5"]], pats=[()], sf=[],
        ops=["alter", "delete", "mkdir", "create", "verify", "diff", "verifysf", "nodh"], maxgens=2, maxops=5, keepsnap=False,
    ),
    # nested histories sealed with several formats at once (the child's root hash copied into the parent, per format)
    "nest2f": dict(
        fmts=["md5", "xxh64"], files=[P("a"), P("d", "b"), P("d", "e", "c")], dirs=[P("d"), P("d", "e")],
        init={P("a"): "c1", P("d"): "DIR", P("d", "b"): "c1", P("d", "e"): "DIR", P("d", "e", "c"): "c2"},
        contents=["c1", "c2"], roots=[P(), P("d"), P("d", "e")], fmtchoices=[["md5"], ["md5", "xxh64"], ["xxh64"]], pats=[()], sf=[],
        ops=["alter", "create", "verify"], maxgens=4, maxops=6, keepsnap=False, mutable=[P("a"), P("d", "e", "c")],
    ),
    # ignore patterns with verify -dh (patterns given on the command line or in a file, not recorded)
    "igndh": dict(
        fmts=["md5"], files=[P("a"), P("x"), P("d", "x"), P("d", "b")], dirs=[P("d")],
        init={P("a"): "c1", P("d"): "DIR", P("d", "b"): "c1"}, contents=["c1", "c2"],
        roots=[P()], fmtchoices=[["md5"]], pats=[(), ("n:x",)], sf=[],
        ops=["alter", "delete", "create", "verify", "diff", "verifydh"], maxgens=2, maxops=6, keepsnap=True,
        mutable=[P("x"), P("d", "x"), P("a")], patnames={"n:x": ["x"]},
    ),
    # ignore patterns and nested histories and -sf: generations that only reference a child generation keep the patterns
    "ignsf": dict(
        fmts=["md5"], files=[P("a"), P("x"), P("d", "x"), P("d", "b")], dirs=[P("d")],
        init={P("a"): "c1", P("x"): "c1", P("d"): "DIR", P("d", "b"): "c1", P("d", "x"): "c1"}, contents=["c1", "c2"],
        roots=[P(), P("d")], fmtchoices=[["md5"]], pats=[(), ("n:x",)], sf=[frozenset({P("d", "b")}), frozenset({P("a")}), frozenset({P("d")})],
        ops=["alter", "create", "createsf", "verify", "diff"], maxgens=4, maxops=6, keepsnap=False,
        mutable=[P("a"), P("d", "b")], patnames={"n:x": ["x"]},
    ),
    # negation patterns: the last matching pattern decides, so the order in which patterns accumulate matters
    "neg": dict(
        fmts=["md5"], files=[P("a"), P("x"), P("d", "x"), P("d", "b")], dirs=[P("d")],
        init={P("a"): "c1", P("x"): "c1", P("d"): "DIR", P("d", "x"): "c2", P("d", "b"): "c1"}, contents=["c1", "c2"],
        roots=[P(), P("d")], fmtchoices=[["md5"]], pats=[(), ("n:x",), ("!n:x",), ("n:x", "!n:x"), ("!n:x", "n:x")], sf=[],
        ops=["alter", "create", "verify", "diff", "verifydh"], maxgens=3, maxops=5, keepsnap=True,
        mutable=[P("x"), P("d", "x")], patnames={"n:x": ["x"], "!n:x": ["x", "!neg"]},
    ),
    # ignore patterns: a base-name pattern, a glob class, applied to files and a directory
    "ign": dict(
        fmts=["md5"], files=[P("a"), P("x"), P("k_t"), P("d", "x"), P("d", "b"), P("g", "c"), P("d", "dsstore")], dirs=[P("d"), P("g")],
        init={P("a"): "c1", P("x"): "c1", P("k_t"): "c1", P("d"): "DIR", P("d", "x"): "c1", P("d", "b"): "c1", P("g"): "DIR", P("g", "c"): "c1", P("d", "dsstore"): "c1"},
        contents=["c1", "c2"], roots=[P(), P("d")], fmtchoices=[["md5"]],
        pats=[(), ("n:x",), ("g:tmp",), ("n:g",), ("n:x", "g:tmp")], sf=[],
        ops=["alter", "delete", "create", "verify", "diff"], maxgens=2, maxops=4, keepsnap=False,
        mutable=[P("x"), P("d", "x"), P("a")],
        patnames={"n:x": ["x"], "g:tmp": ["k_t"], "n:g": ["g"], ".DS_Store": ["dsstore"]},
    ),
    # renames with -dr
    "ren": dict(
        fmts=["md5", "xxh64"], files=[P("a"), P("a2"), P("d", "b"), P("e", "b")], dirs=[P("d"), P("e")],
        init={P("a"): "c1", P("d"): "DIR", P("d", "b"): "EMPTY", P("e"): "DIR"}, contents=["c3"],      # one of the files is empty
        roots=[P()], fmtchoices=[["md5"], ["xxh64"]], pats=[()], sf=[],
        ops=["alter", "rename", "create", "verify", "diff", "dr", "distinct"], maxgens=2, maxops=5, keepsnap=False,
    ),
    # rename chains: one file renamed in consecutive generations, moves into a directory
    "chain": dict(
        fmts=["md5", "xxh64"], files=[P("a"), P("a2"), P("d", "a3"), P("k")], dirs=[P("d")],
        init={P("a"): "c1", P("k"): "c2"}, contents=["c3"],
        roots=[P()], fmtchoices=[["md5"], ["xxh64"]], pats=[()], sf=[],
        ops=["alter", "rename", "mkdir", "create", "verify", "diff", "dr", "distinct"], maxgens=3, maxops=7, keepsnap=False,
        mutable=[P("a"), P("a2"), P("d", "a3"), P("d")],
    ),
    # rename cycles only (rename, create -dr, verify): small enough to export every behaviour up to six operations
    "chain2": dict(
        fmts=["md5"], files=[P("a"), P("a2"), P("d", "a3")], dirs=[P("d")],
        init={P("a"): "c1", P("d"): "DIR"}, contents=["c1"],
        roots=[P()], fmtchoices=[["md5"]], pats=[()], sf=[],
        ops=["rename", "create", "verify", "dr", "dronly"], maxgens=3, maxops=6, keepsnap=False,
        mutable=[P("a"), P("a2"), P("d", "a3")],
    ),
    # files longer than the 1 MiB read chunk inside histories (create hashes them in one pass in all formats)
    "big": dict(
        fmts=["md5", "xxh64"], files=[P("a"), P("d", "b")], dirs=[P("d")],
        init={P("a"): "bigp1", P("d"): "DIR", P("d", "b"): "c1"}, contents=["bigp1", "big2", "c1"],
        roots=[P()], fmtchoices=[["md5"], ["md5", "xxh64"]], pats=[()], sf=[frozenset({P("a")})],
        ops=["alter", "create", "createsf", "verify"], maxgens=2, maxops=4, keepsnap=False, mutable=[P("a")],
    ),
    # one file renamed generation after generation (three and more steps), every step sealed with -dr
    "chain3": dict(
        fmts=["md5"], files=[P("a"), P("a2"), P("a3"), P("d", "a4")], dirs=[P("d")],
        init={P("a"): "c1", P("d"): "DIR"}, contents=["c1"],
        roots=[P()], fmtchoices=[["md5"]], pats=[()], sf=[],
        ops=["rename", "create", "verify", "dr", "dronly"], maxgens=5, maxops=7, keepsnap=False,
        mutable=[P("a"), P("a2"), P("a3"), P("d", "a4")],
        init_creates=[P()],
    ),
    # a whole directory renamed / moved into another directory (its files all move at once), alone and together with a
    # single-file rename, sealed with and without -dr
    "rendir": dict(
        fmts=["md5"], files=[P("a"), P("a2"), P("d", "b"), P("d", "c"), P("e", "b"), P("e", "c"), P("g", "e", "b"), P("g", "e", "c")],
        dirs=[P("d"), P("e"), P("g"), P("g", "e")],
        init={P("a"): "c1", P("d"): "DIR", P("d", "b"): "c2", P("d", "c"): "c3", P("g"): "DIR"}, contents=["c1", "c2", "c3"],
        roots=[P()], fmtchoices=[["md5"]], pats=[()], sf=[],
        ops=["rename", "renamedir", "create", "verify", "diff", "dr", "nodh"], maxgens=4, maxops=6, keepsnap=True,
        mutable=[P("a"), P("a2"), P("d"), P("e"), P("g", "e")], init_creates=[P()],
    ),
    # a rename recorded by the root history while a nested history holds a file with the same relative path as the new name
    "rennest": dict(
        fmts=["md5"], files=[P("a"), P("a2"), P("d", "a2")], dirs=[P("d")],
        init={P("a"): "c1", P("d"): "DIR", P("d", "a2"): "c2"}, contents=["c1", "c2"],
        roots=[P(), P("d")], fmtchoices=[["md5"]], pats=[()], sf=[],
        ops=["rename", "create", "verify", "dr", "dronly"], maxgens=5, maxops=6, keepsnap=False,
        mutable=[P("a"), P("a2")], init_creates=[P()],
    ),
    # directory-hash verification with its option variants: -h FORMAT, -co, -ro
    "dhopt": dict(
        fmts=["c4", "md5", "xxh64"], files=[P("a"), P("d", "b"), P("d", "e", "c")], dirs=[P("d"), P("d", "e"), P("g")],
        init={P("a"): "c1", P("d"): "DIR", P("d", "b"): "c2", P("d", "e"): "DIR"}, contents=["c1", "c2"],
        roots=[P(), P("d")], fmtchoices=[["md5"], ["xxh64"], ["md5", "xxh64"], ["c4"]], pats=[()], sf=[],
        ops=["alter", "delete", "mkdir", "create", "verifydh", "verifydhco", "verifydhopt", "nodh"], maxgens=3, maxops=6, keepsnap=True,
    ),
    # directory-hash verification
    "dh": dict(
        fmts=["md5", "xxh64"], files=[P("a"), P("d", "b"), P("d", "c")], dirs=[P("d")],
        init={P("a"): "c1", P("d"): "DIR", P("d", "b"): "c2"}, contents=["c1", "c2"],
        roots=[P(), P("d")], fmtchoices=[["md5"], ["xxh64"], ["md5", "xxh64"]], pats=[()], sf=[],
        ops=["alter", "delete", "rename", "create", "verifydh", "nodh"], maxgens=3, maxops=5, keepsnap=True,
    ),
}


def names_of(sc):
    return sorted({a for p in list(sc["files"]) + list(sc["dirs"]) for a in p})


def render(sc, name, wd, invariants=None, props=(), maxgens=None, maxops=None):
    """write MC_<name>.tla, MC_<name>_check.cfg, MC_<name>_export.cfg into wd"""
    fm = sc["fmts"]
    fmtchoices = nonempty_subsets(fm) if sc["fmtchoices"] == "all" else [frozenset(c) for c in sc["fmtchoices"]]
    patnames = {k: set(v) for k, v in sc.get("patnames", {}).items()}
    mod = "MC_" + name
    defs = {
        "c_Fmts": tuple(fm),
        "c_PatNames": Fn(patnames),
        "c_FilePaths": set(sc["files"]),
        "c_DirPaths": set(sc["dirs"]),
        "c_InitDisk": Fn(sc["init"]),
        "c_Contents": set(sc["contents"]),
        "c_Mutable": set(sc.get("mutable", list(sc["files"]) + list(sc["dirs"]))),
        "c_CmdRoots": set(sc["roots"]),
        "c_FmtChoices": set(fmtchoices),
        "c_PatChoices": set(tuple(p) for p in sc["pats"]),
        "c_SFChoices": set(sc["sf"]),
        "c_Ops": set(sc["ops"]),
        "c_InitCreates": tuple(tuple(r) for r in sc.get("init_creates", [])),
    }
    with open(os.path.join(wd, mod + ".tla"), "w") as fh:
        fh.write("---- MODULE %s ----\nEXTENDS MhlHistoryMC\n" % mod)
        for k, v in defs.items():
            fh.write("%s == %s\n" % (k, tla(v)))
        fh.write("====\n")
    consts = "".join(" %s <- c_%s\n" % (k[2:], k[2:]) for k in defs)
    consts += " MaxGens = %d\n MaxOps = %d\n KeepSnap = %s\n" % (maxgens or sc["maxgens"], maxops or sc["maxops"], "TRUE" if sc.get("keepsnap") else "FALSE")
    inv = ALL_INVARIANTS if invariants is None else invariants
    with open(os.path.join(wd, mod + "_check.cfg"), "w") as fh:
        fh.write("SPECIFICATION Spec\nCONSTANTS\n" + consts + "CONSTRAINT GenBound\nVIEW CheckView\n")
        for i in inv:
            fh.write("INVARIANT %s\n" % i)
        for p in props:
            fh.write("PROPERTY %s\n" % p)
    with open(os.path.join(wd, mod + "_export.cfg"), "w") as fh:
        fh.write("SPECIFICATION Spec\nCONSTANTS\n" + consts + "CONSTRAINT GenBound\nCONSTRAINT Export\n")
    return mod
