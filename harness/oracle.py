"""Independent oracles: file digests (one-shot library calls), C4 base-58 codec,
and the compositional directory-hash definition of property C07.

Nothing in here imports ascmhl.  Anchored by published test vectors (see selfcheck()).
"""
import hashlib

import xxhash

FORMATS = ["c4", "md5", "sha1", "xxh128", "xxh3", "xxh64"]  # alphabetical = manifest order
C4_ALPHABET = "123456789ABCDEFGHJKLMNPQRSTUVWXYZabcdefghijkmnopqrstuvwxyz"


def c4_encode_int(value: int) -> str:
    """90 characters: 'c4' + 88 base-58 digits, most significant first, zero digit '1'."""
    digits = []
    for _ in range(88):
        value, r = divmod(value, 58)
        digits.append(C4_ALPHABET[r])
    assert value == 0, "value does not fit 88 base-58 digits"
    return "c4" + "".join(reversed(digits))


def c4_decode(text: str) -> bytes:
    assert len(text) == 90 and text[:2] == "c4", text
    v = 0
    for ch in text[2:]:
        v = v * 58 + C4_ALPHABET.index(ch)
    return v.to_bytes(64, "big")


def digest(fmt: str, data: bytes) -> str:
    if fmt == "md5":
        return hashlib.md5(data).hexdigest()
    if fmt == "sha1":
        return hashlib.sha1(data).hexdigest()
    if fmt == "xxh32":
        return xxhash.xxh32_hexdigest(data)
    if fmt == "xxh64":
        return xxhash.xxh64_hexdigest(data)
    if fmt == "xxh3":
        return xxhash.xxh3_64_hexdigest(data)
    if fmt == "xxh128":
        return xxhash.xxh3_128_hexdigest(data)
    if fmt == "c4":
        return c4_encode_int(int.from_bytes(hashlib.sha512(data).digest(), "big"))
    raise ValueError(fmt)


def digest_bytes(fmt: str, text: str) -> bytes:
    return c4_decode(text) if fmt == "c4" else bytes.fromhex(text)


def hash_of_digests(fmt: str, digests) -> str:
    """digest of the children's digests taken in sorted order (empty input for none)."""
    return digest(fmt, b"".join(digest_bytes(fmt, d) for d in sorted(digests)))


def dir_hashes(tree, fmt, file_digest):
    """tree: nested dict name -> (bytes-like key | dict).  Returns (content, structure) of the dict.

    file_digest(leaf) -> digest string of a file leaf in fmt.
    content(d)   = H(sorted child content digests)
    structure(d) = H(sorted H(name + (file digest | child structure digest)))
    """
    contents, structures = [], []
    for name, child in tree.items():
        if isinstance(child, dict):
            c, s = dir_hashes(child, fmt, file_digest)
            contents.append(c)
            structures.append(digest(fmt, name.encode("utf8") + digest_bytes(fmt, s)))
        else:
            d = file_digest(child)
            contents.append(d)
            structures.append(digest(fmt, name.encode("utf8") + digest_bytes(fmt, d)))
    return hash_of_digests(fmt, contents), hash_of_digests(fmt, structures)


def selfcheck():
    """published vectors anchoring the oracle itself"""
    assert digest("md5", b"") == "d41d8cd98f00b204e9800998ecf8427e"
    assert digest("md5", b"abc") == "900150983cd24fb0d6963f7d28e17f72"
    assert digest("sha1", b"") == "da39a3ee5e6b4b0d3255bfef95601890afd80709"
    assert digest("sha1", b"abc") == "a9993e364706816aba3e25717850c26c9cd0d89d"
    assert digest("xxh64", b"") == "ef46db3751d8e999"
    assert digest("xxh3", b"") == "2d06800538d394c2"
    assert digest("xxh128", b"") == "99aa06d3014798d86001c324468d497f"
    assert digest("xxh32", b"") == "02cc5d05"
    # C4 ID of the empty input (published in the C4 / SMPTE ST 2114 documentation)
    assert (
        digest("c4", b"")
        == "c459dsjfscH38cYeXXYogktxf4Cd9ibshE3BHUo6a58hBXmRQdZrAkZzsWcbWtDg5oQstpDuni4Hirj75GEmTc1sFT"
    )
    assert c4_decode(c4_encode_int(0)) == bytes(64)
    assert c4_encode_int(0) == "c4" + "1" * 88
    return True


if __name__ == "__main__":
    print(selfcheck())
