"""C15 (crash points of create) and C05 (tampering) campaigns on the real code."""
import hashlib
import json
import os
import shutil
import xml.etree.ElementTree as ET

from . import world as W
from . import faults
from . import project as PJ

import ascmhl.commands as C

LAYOUTS = {
    # name -> (history roots bottom-up, files)
    "flat": [()],
    "child": [("d",), ()],
    "grandchild": [("d", "e"), ("d",), ()],
}
FILES = [("a",), ("d", "b"), ("d", "e", "c")]
DIRS = [("d",), ("d", "e")]


def hid(ap):
    return "/".join(ap) if ap else "."


def build(layout, prior, names="plain", salt=""):
    """a world whose root history has `prior` generations; nested histories (if any) exist already"""
    w = W.World(FILES, DIRS, name_class=names, salt=salt)
    for k, f in enumerate(FILES):
        w.write_file(f, "c%d" % (k + 1))
    roots = LAYOUTS[layout]
    for r in roots[:-1]:
        w.pin_mtimes()
        res = w.run(C.create, [w.cpath(r), "-h", "md5"])
        assert res["exit"] == 0, res
        w.tick()
    for _ in range(prior):
        w.pin_mtimes()
        res = w.run(C.create, [w.cpath(()), "-h", "md5"])
        assert res["exit"] == 0, res
        w.tick()
    w.pin_mtimes()
    return w


def hist_files(w, ap):
    folder = os.path.join(w.cpath(ap), "ascmhl")
    if not os.path.isdir(folder):
        return None
    out = {}
    for n in sorted(os.listdir(folder)):
        with open(os.path.join(folder, n), "rb") as fh:
            out[n] = fh.read()
    return out


def xml_class(data):
    if data is None:
        return "absent"
    if len(data) == 0:
        return "empty"
    try:
        ET.fromstring(data)
        return "full"
    except ET.ParseError:
        return "partial"


def classify_event(w, roots, ev):
    """map a recorded file-system call to the spec's event alphabet"""
    p = ev["p"]
    for r in sorted(roots, key=lambda r: -len(r)):
        base = os.path.join(w.cpath(r), "ascmhl")
        if p == base:
            return {"k": ev["k"], "h": hid(r), "f": "dir"}
        if p.startswith(base + os.sep):
            name = os.path.basename(p)
            tgt = os.path.basename(ev["x"]) if ev["k"] == "replace" else name
            if ev["k"] == "replace":
                f = "chain" if tgt == "ascmhl_chain.xml" else "man"
            elif name == "ascmhl_chain.xml":
                f = "chain"
            elif name.endswith(".mhl"):
                f = "man"
            elif "chain" in name:
                f = "tmpchain"
            else:
                f = "tmpman"
            return {"k": ev["k"], "h": hid(r), "f": f}
    return {"k": ev["k"], "h": "?", "f": p}


def observe(w, roots, pre):
    """abstract post-crash state of every history, read independently"""
    res = {}
    for r in roots:
        files = hist_files(w, r)
        before = pre[hid(r)] or {}
        o = {"folder": files is not None, "man": "absent", "tmpman": "absent", "chain": "absent", "tmpchain": "absent",
             "old_intact": True, "chain_lists_old": False, "chain_lists_new": False}
        files = files or {}
        for n, data in before.items():
            if n.endswith(".mhl") and files.get(n) != data:
                o["old_intact"] = False
        new_m = [n for n in files if n.endswith(".mhl") and n not in before]
        if new_m:
            o["man"] = xml_class(files[new_m[0]])
        for n, data in files.items():
            if n.endswith(".mhl") or n == "ascmhl_chain.xml":
                continue
            if "chain" in n:
                o["tmpchain"] = xml_class(data)
            else:
                o["tmpman"] = xml_class(data)
        ch = files.get("ascmhl_chain.xml")
        o["chain"] = xml_class(ch)
        if o["chain"] == "full":
            entries = PJ.parse_chain(ch).get("entries", [])
            old = PJ.parse_chain(before["ascmhl_chain.xml"]).get("entries", []) if "ascmhl_chain.xml" in before else []
            o["chain_lists_old"] = entries[: len(old)] == old and all(
                files.get(e["name"]) is not None and PJ.c4_of(files[e["name"]]) == e["c4"] for e in entries[: len(old)])
            o["chain_lists_new"] = len(entries) > len(old)
        res[hid(r)] = o
    return res


def _listed_equals_loaded(w, info_out):
    """the generations `info` lists for every history are exactly the ones its chain file lists (the chain is the
    table of contents: a manifest that never made it into the chain is not a generation)"""
    import re
    loaded, cur = {}, None
    for ln in info_out.splitlines():
        m = re.match(r"^(?:Info with history at path|Child History at) (.*?):?$", ln)
        g = re.match(r"^  Generation (\d+) ", ln)
        if m:
            cur = os.path.normpath(m.group(1))
            loaded[cur] = []
        elif g and cur is not None:
            loaded[cur].append(int(g.group(1)))
    ok = True
    for root, nums in loaded.items():
        cp = os.path.join(root, "ascmhl", "ascmhl_chain.xml")
        entries = PJ.parse_chain(open(cp, "rb").read()).get("entries", []) if os.path.exists(cp) else []
        if sorted(nums) != sorted(int(e["n"]) for e in entries):
            ok = False
    return ok


def after_commands(w):
    out = {"listed_ok": True}
    for name, cmd, args in (("info", C.info, [w.cpath(())]), ("verify", C.verify, [w.cpath(())]), ("create", C.create, [w.cpath(()), "-h", "md5"]), ("info2", C.info, [w.cpath(())])):
        w.pin_mtimes()
        r = w.run(cmd, args)
        if name in ("info", "info2"):
            if r["exit"] == 0 and not _listed_equals_loaded(w, r["out"]):
                out["listed_ok"] = False
            if name == "info2":
                continue
        out[name] = r["exit"]
        out[name + "_exc"] = (r["exc"] or "")[:120]
        w.tick()
    return out


def reference_run(layout, prior, names="plain", buffered=False):
    """uninterrupted create with the injector counting: the protocol trace"""
    w = build(layout, prior, names)
    roots = LAYOUTS[layout]
    try:
        pre = {hid(r): hist_files(w, r) for r in roots}
        with faults.Injector(buffered=buffered) as inj:
            res = w.run(C.create, [w.cpath(()), "-h", "md5"])
        events = [classify_event(w, roots, e) for e in inj.events]
        order = []
        for e in events:
            if e["h"] not in order:
                order.append(e["h"])
        hists = []
        for r in roots:
            h = hid(r)
            hists.append({
                "h": h, "prior": len([n for n in (pre[h] or {}) if n.endswith(".mhl")]), "depth": len(r),
                "below": hid(r[:-1]) if r else "-",
                "wman": len([e for e in events if e["h"] == h and e["k"] == "write" and e["f"] in ("man", "tmpman")]),
                "wchain": len([e for e in events if e["h"] == h and e["k"] == "write" and e["f"] in ("chain", "tmpchain")]),
            })
        atomic = any(e["k"] == "replace" for e in events)
        return {"events": events, "order": order, "hists": hists, "atomic": atomic, "exit": res["exit"], "n": len(events), "buffered": buffered,
                "loadorder": [hid(r) for r in reversed(roots)]}
    finally:
        w.destroy()


def crash_case(args):
    layout, prior, names, k, mode, ref = args
    w = build(layout, prior, names)
    roots = LAYOUTS[layout]
    try:
        pre = {hid(r): hist_files(w, r) for r in roots}
        crashed = False
        try:
            with faults.Injector(at=k, mode=mode, buffered=ref.get("buffered", False)) as inj:
                w.run(C.create, [w.cpath(()), "-h", "md5"])
        except faults.Crash:
            crashed = True
        obs = observe(w, roots, pre)
        after = after_commands(w)
        hists = []
        for hr in ref["hists"]:
            h = dict(hr)
            h["obs"] = obs[hr["h"]]
            hists.append(h)
        return {"tid": "crash-%s-%d-%s-%s" % (layout, prior, names, "buf" if ref.get("buffered") else "raw"), "i": k * 3 + ["none", "partial", "full"].index(mode), "kind": "crash", "buffered": bool(ref.get("buffered")),
                "layout": layout, "prior": prior, "k": k, "mode": mode, "crashed": crashed, "events": ref["events"], "order": ref["order"],
                "loadorder": ref["loadorder"], "atomic": ref["atomic"], "hists": hists, "after": after, "exit": after["info"]}
    finally:
        w.destroy()


# ---------------------------------------------------------------------------------------------
# C05: tampering

T_FILES = [("a",), ("d", "b"), ("d", "e", "c"), ("d2", "f")]
T_DIRS = [("d",), ("d", "e"), ("d2",)]
EDITS = ["flip_first", "flip_last", "flip_mid", "insert", "delete", "truncate_half", "append_newline", "truncate_zero", "flip_rand"]


def build_tamper_world(names="plain", salt=""):
    w = W.World(T_FILES, T_DIRS, name_class=names, salt=salt)
    for k, f in enumerate(T_FILES):
        w.write_file(f, "c%d" % (k % 3 + 1))
    for r in [("d", "e"), ("d",), ("d2",), (), ()]:
        w.pin_mtimes()
        res = w.run(C.create, [w.cpath(r), "-h", "md5"])
        assert res["exit"] == 0, res
        w.tick()
    return w


def edit_bytes(data, kind, rnd):
    b = bytearray(data)
    n = len(b)
    if kind == "flip_first":
        b[0] ^= 0x01
    elif kind == "flip_last":
        b[n - 1] ^= 0x80
    elif kind == "flip_mid":
        b[n // 2] ^= 0x10
    elif kind == "flip_rand":
        b[rnd.randrange(n)] ^= 1 << rnd.randrange(8)
    elif kind == "insert":
        b.insert(rnd.randrange(n + 1), 0x20)
    elif kind == "delete":
        del b[rnd.randrange(n)]
    elif kind == "truncate_half":
        del b[n // 2:]
    elif kind == "append_newline":
        b += b"\n"
    elif kind == "truncate_zero":
        del b[:]
    return bytes(b)


def tamper_case(args):
    import random
    k, state, edit, names, seed = args
    rnd = random.Random("%s-%s-%s" % (seed, k, edit))
    w = build_tamper_world(names)
    try:
        for hrec in state["st"]:
            folder = os.path.join(w.cpath(tuple(hrec["h"])), "ascmhl")
            mans = sorted(n for n in os.listdir(folder) if n.endswith(".mhl"))
            assert len(mans) == len(hrec["mans"]), (hrec, mans)
            for i, s in enumerate(hrec["mans"]):
                p = os.path.join(folder, mans[i])
                if s == "missing":
                    os.remove(p)
                elif s == "edited":
                    with open(p, "rb") as fh:
                        data = fh.read()
                    with open(p, "wb") as fh:
                        fh.write(edit_bytes(data, edit, rnd))
                    if k % 2 == 0:
                        # the edit leaves the time stamp older than the chain file's (bit rot, cp -p / rsync -t restores)
                        w.older = set(getattr(w, "older", set())) | {p}
            if hrec["chain"] == "missing":
                os.remove(os.path.join(folder, "ascmhl_chain.xml"))
        lines = []
        cmds = []
        for R in [(), ("d",)]:
            rp = w.cpath(R)
            f = w.cpath(("d", "e", "c"))
            cmds += [
                ("create", C.create, [rp, "-h", "md5"], R), ("createsf", C.create, [rp, "-h", "md5", "-sf", f], R),
                ("verify", C.verify, [rp], R), ("verifysf", C.verify, [rp, "-sf", f], R), ("verifydh", C.verify, [rp, "-dh"], R),
                ("diff", C.diff, [rp], R), ("info", C.info, [rp], R), ("infosf-root", C.info, ["-sf", f, rp], R),
                ("flatten", C.flatten, [rp, w.flat_dest], R),
            ]
        cmds.append(("infosf", C.info, ["-sf", w.cpath(("d", "e", "c"))], ("d", "e")))
        cmds.append(("infosf", C.info, ["-sf", w.cpath(("d2", "f"))], ("d2",)))
        for j, (name, cmd, args_, R) in enumerate(cmds):
            w.pin_mtimes()
            pre = w.snapshot()
            res = w.run(cmd, args_)
            post = w.snapshot()
            delta = W.World.delta(pre, post)
            lines.append({"tid": "tamper-%d-%s" % (k, edit), "i": j, "cmd": name, "R": list(R), "st": state["st"], "edit": edit, "exit": res["exit"],
                          "exc": (res["exc"] or "")[:120],
                          "delta": [{"k": kd, "p": os.path.relpath(p, w.base)} for kd, p in delta],
                          "writes": [{"k": e[0], "p": os.path.relpath(e[1], w.base)} for e in res["writes"]]})
        return lines
    finally:
        w.destroy()


def big_manifest_case(args):
    """C05 on a manifest longer than the 1 MiB read chunk of the hasher that guards the chain: one byte changed in its last
    part must be refused with 31 like any other edit (the fault model itself has no notion of length)"""
    nfiles, cmd_name = args
    w = W.World([("a",)], [], name_class="plain", salt="bigman")
    try:
        for i in range(nfiles):
            with open(os.path.join(w.root, "clip_%05d_with_a_rather_long_name_to_fill_the_manifest.mov" % i), "wb") as fh:
                fh.write(b"x%d" % i)
        r0 = w.run(C.create, [w.root, "-h", "md5", "-h", "sha1"])
        folder = os.path.join(w.root, "ascmhl")
        man = [n for n in os.listdir(folder) if n.endswith(".mhl")][0]
        mp = os.path.join(folder, man)
        data = bytearray(open(mp, "rb").read())
        size = len(data)
        pos = data.rfind(b"</md5>") - 3            # a digit of the last recorded digest
        data[pos] = ord("0") if data[pos] != ord("0") else ord("1")
        with open(mp, "wb") as fh:
            fh.write(bytes(data))
        w.pin_mtimes()
        pre = w.snapshot()
        cmd, a = {"verify": (C.verify, [w.root]), "create": (C.create, [w.root, "-h", "md5"]), "info": (C.info, [w.root])}[cmd_name]
        r = w.run(cmd, a)
        delta = W.World.delta(pre, w.snapshot())
        return {"cmd": cmd_name, "size": size, "pos": pos, "create0": r0["exit"], "exit": r["exit"], "delta": [(k, os.path.relpath(p_, w.base)) for k, p_ in delta][:3]}
    finally:
        w.destroy()
