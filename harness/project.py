"""Projection: real file system -> abstract state of spec/MhlHistory.tla.

Independent reader: xml.etree.ElementTree (the tool uses lxml iterparse), hashlib, own C4 codec.
"""
import hashlib
import os
import re
import xml.etree.ElementTree as ET

import pathspec

from . import oracle

NS = "{urn:ASC:MHL:v2.0}"
NSD = "{urn:ASC:MHL:DIRECTORY:v2.0}"
GEN_NAME = re.compile(r"^(\d{4,})_(.*)_(\d{4}-\d{2}-\d{2}_\d{6}Z)\.mhl$")

_XSD = {}


def xsd(kind):
    """lxml XMLSchema objects for the published schemas (oracle of C11)"""
    if kind not in _XSD:
        from lxml import etree

        repo = os.environ.get("VERIF_REPO", "/repo")
        f = {"manifest": "xsd/ASCMHL.xsd", "directory": "xsd/ASCMHLDirectory__combined.xsd"}[kind]
        _XSD[kind] = etree.XMLSchema(etree.parse(os.path.join(repo, f)))
    return _XSD[kind]


def xsd_valid(kind, data: bytes):
    from lxml import etree

    try:
        doc = etree.fromstring(data)
    except etree.XMLSyntaxError as e:
        return False, "syntax: %s" % e
    s = xsd(kind)
    ok = s.validate(doc)
    return ok, "" if ok else str(s.error_log.last_error)


def c4_of(data: bytes) -> str:
    return oracle.digest("c4", data)


def _strip(tag):
    return tag.split("}", 1)[-1]


def parse_manifest(data: bytes):
    """-> dict with raw (concrete) values, or {'broken': msg}"""
    try:
        root = ET.fromstring(data)
    except ET.ParseError as e:
        return {"broken": str(e)}
    m = {"files": [], "dirs": [], "root": None, "pats": [], "refs": [], "proc": None, "creator": {}, "rootattrs": dict(root.attrib)}
    ci = root.find(NS + "creatorinfo")
    if ci is not None:
        cr = {"authors": []}
        for ch in ci:
            t = _strip(ch.tag)
            if t == "author":
                cr["authors"].append({"name": ch.text, "email": ch.get("email"), "phone": ch.get("phone"), "role": ch.get("role")})
            elif t == "tool":
                cr["tool"] = {"name": ch.text, "version": ch.get("version")}
            else:
                cr[t] = ch.text
        m["creator"] = cr
    pi = root.find(NS + "processinfo")
    if pi is not None:
        pr = pi.find(NS + "process")
        m["proc"] = pr.text if pr is not None else None
        rh = pi.find(NS + "roothash")
        if rh is not None:
            m["root"] = _dirhash(rh)
        ig = pi.find(NS + "ignore")
        if ig is not None:
            m["pats"] = [p.text for p in ig.findall(NS + "pattern")]
            m["has_ignore"] = True
    hs = root.find(NS + "hashes")
    m["has_hashes"] = hs is not None
    if hs is not None:
        for ch in hs:
            t = _strip(ch.tag)
            if t == "hash":
                pe = ch.find(NS + "path")
                rec = {
                    "path": pe.text,
                    "size": pe.get("size"),
                    "lastmod": pe.get("lastmodificationdate"),
                    "creationdate": pe.get("creationdate"),
                    "ents": [],
                    "prev": None,
                }
                for e in ch:
                    te = _strip(e.tag)
                    if te in oracle.FORMATS or te == "xxh32":
                        rec["ents"].append({"f": te, "d": e.text, "a": e.get("action"), "hashdate": e.get("hashdate")})
                    elif te == "previousPath":
                        rec["prev"] = e.text
                m["files"].append(rec)
            elif t == "directoryhash":
                pe = ch.find(NS + "path")
                rec = _dirhash(ch)
                rec["path"] = pe.text if pe is not None else None
                rec["lastmod"] = pe.get("lastmodificationdate") if pe is not None else None
                pp = ch.find(NS + "previousPath")
                rec["prev"] = pp.text if pp is not None else None
                m["dirs"].append(rec)
    rf = root.find(NS + "references")
    if rf is not None:
        for r in rf.findall(NS + "hashlistreference"):
            m["refs"].append({"path": r.find(NS + "path").text, "c4": r.find(NS + "c4").text})
    return m


def _dirhash(el):
    rec = {"content": [], "structure": []}
    for kind in ("content", "structure"):
        k = el.find(NS + kind)
        if k is not None:
            for e in k:
                rec[kind].append({"f": _strip(e.tag), "d": e.text, "a": e.get("action"), "hashdate": e.get("hashdate")})
    return rec


def parse_chain(data: bytes):
    try:
        root = ET.fromstring(data)
    except ET.ParseError as e:
        return {"broken": str(e)}
    out = []
    for hl in root.findall(NSD + "hashlist"):
        p = hl.find(NSD + "path")
        c4 = hl.find(NSD + "c4")
        out.append({"n": hl.get("sequencenr"), "name": p.text if p is not None else None, "c4": c4.text if c4 is not None else None})
    return {"entries": out}


class Projector:
    """Stateful per world: caches parsed manifests, remembers directory-hash oracle verdicts."""

    def __init__(self, world):
        self.w = world
        self.cache = {}  # (path, sha) -> parsed
        self.dirverdict = {}  # manifest path -> {relpath: {fmt: (cok, sok)}}, set by judge_dirhashes
        self.snapdisk = {}  # manifest path -> abstract disk at creation

    # -- ignore oracle ------------------------------------------------------------------
    @staticmethod
    def spec(patterns):
        return pathspec.PathSpec.from_lines("gitwildmatch", iter(patterns))

    # -- disk ---------------------------------------------------------------------------
    def disk(self, snap):
        """abstract media tree: list of {p, c} for everything under world.root except ascmhl folders"""
        w = self.w
        out = []
        pref = w.root + os.sep
        for p, meta in snap.items():
            if not p.startswith(pref):
                continue
            rel = p[len(pref):].replace(os.sep, "/")
            parts = rel.split("/")
            if "ascmhl" in parts:
                continue
            ap = w.apath_of_rel(rel)
            if meta[0] == "d":
                out.append({"p": list(ap), "c": "DIR"})
            else:
                out.append({"p": list(ap), "c": w.cid_of_sha256(meta[1])})
        out.sort(key=lambda e: e["p"])
        return out

    # -- histories ----------------------------------------------------------------------
    def histories(self, snap, raw=False):
        """every directory (under world.root, incl. root) containing an 'ascmhl' entry"""
        w = self.w
        res = []
        for p, meta in snap.items():
            if os.path.basename(p) != "ascmhl" or meta[0] != "d":
                continue
            hroot = os.path.dirname(p)
            if not (hroot == w.root or hroot.startswith(w.root + os.sep)):
                continue
            rel = os.path.relpath(hroot, w.root).replace(os.sep, "/")
            res.append(self._history(snap, hroot, w.apath_of_rel(rel), raw))
        res.sort(key=lambda h: h["h"])
        return res

    def _read(self, path):
        with open(path, "rb") as fh:
            return fh.read()

    def _history(self, snap, hroot, ah, raw):
        w = self.w
        folder = os.path.join(hroot, "ascmhl")
        names = sorted(os.path.basename(p) for p in snap if os.path.dirname(p) == folder)
        h = {"h": list(ah), "chain_present": False, "chain_ok": True, "chain": [], "gens": [], "stray": []}
        chain_path = os.path.join(folder, "ascmhl_chain.xml")
        manifests = {}
        for n in names:
            p = os.path.join(folder, n)
            if n == "ascmhl_chain.xml":
                continue
            if n.endswith(".mhl") and snap[p][0] == "f":
                manifests[n] = p
            else:
                h["stray"].append(n)
        if chain_path in snap:
            h["chain_present"] = True
            data = self._read(chain_path)
            ch = parse_chain(data)
            ok, why = xsd_valid("directory", data)
            h["chain_xsd"] = ok
            if not ok:
                h["chain_xsd_why"] = why
            if "broken" in ch:
                h["chain_ok"] = False
            else:
                for e in ch["entries"]:
                    mp = manifests.get(e["name"])
                    entry = {"n": int(e["n"]) if (e["n"] or "").isdigit() else -1, "name": e["name"], "present": mp is not None}
                    entry["c4ok"] = bool(mp) and c4_of(self._read(mp)) == e["c4"]
                    h["chain"].append(entry)
        gens = []
        for n, p in manifests.items():
            g = self._generation(snap, hroot, ah, n, p, raw)
            gens.append(g)
        gens.sort(key=lambda g: (g["n"], g["name"]))
        h["gens"] = gens
        return h

    def _generation(self, snap, hroot, ah, name, path, raw):
        w = self.w
        sha = snap[path][1]
        key = (path, sha)
        if key not in self.cache:
            data = self._read(path)
            m = parse_manifest(data)
            ok, why = xsd_valid("manifest", data)
            m["xsd_ok"], m["xsd_why"] = ok, why
            self.cache[key] = m
        m = self.cache[key]
        mt = GEN_NAME.match(name)
        g = {"name": name, "sha": sha[:16], "n": int(mt.group(1)) if mt else -1, "nameok": bool(mt), "folder": mt.group(2) if mt else "", "stamp": mt.group(3) if mt else ""}
        g["folderok"] = g["folder"] == os.path.basename(os.path.normpath(hroot))
        if "broken" in m:
            g["broken"] = True
            return g
        g["broken"] = False
        g["xsd_ok"] = m["xsd_ok"]
        if not m["xsd_ok"]:
            g["xsd_why"] = m["xsd_why"]
        g["proc"] = m["proc"] or ""
        g["cdate"] = (m.get("creator") or {}).get("creationdate") or ""
        g["pats"] = list(m["pats"])
        g["files"] = []
        for r in m["files"]:
            ents = []
            for e in r["ents"]:
                fmt_cid = w.digest_table.get(e["d"])
                cid = fmt_cid[1] if (fmt_cid and fmt_cid[0] == e["f"]) else "BAD"
                ents.append({"f": e["f"], "c": cid, "a": e["a"] or "none"})
            rec = {
                "p": list(w.apath_of_rel(r["path"])) if r["path"] is not None else ["?none"],
                "pathok": _relpath_ok(r["path"]),
                "size": int(r["size"]) if r["size"] is not None and r["size"].isdigit() else -1,
                "ents": ents,
                "prev": list(w.apath_of_rel(r["prev"])) if r["prev"] else ["-"],
            }
            if raw:
                rec["raw"] = r
            g["files"].append(rec)
        verdict = self.dirverdict.get(path, {})
        g["dirs"] = []
        for r in m["dirs"]:
            fm = [e["f"] for e in r["content"]]
            v = verdict.get(r["path"], {})
            rec = {
                "p": list(w.apath_of_rel(r["path"])) if r["path"] is not None else ["?none"],
                "pathok": _relpath_ok(r["path"]),
                "fmts": fm,
                "sfmts": [e["f"] for e in r["structure"]],
                "cok": [f for f in fm if v.get(f, (False, False))[0]],
                "sok": [f for f in fm if v.get(f, (False, False))[1]],
                "prev": list(w.apath_of_rel(r["prev"])) if r["prev"] else ["-"],
                "hs": _hs(r),
            }
            if raw:
                rec["raw"] = r
            g["dirs"].append(rec)
        if m["root"] is not None:
            fm = [e["f"] for e in m["root"]["content"]]
            v = verdict.get(".", {})
            g["root"] = {
                "has": True,
                "fmts": fm,
                "cok": [f for f in fm if v.get(f, (False, False))[0]],
                "sok": [f for f in fm if v.get(f, (False, False))[1]],
                "hs": _hs(m["root"]),
            }
            if raw:
                g["root"]["raw"] = m["root"]
        else:
            g["root"] = {"has": False, "fmts": [], "cok": [], "sok": [], "hs": []}
        g["refs"] = []
        for r in m["refs"]:
            # reference path: <child rel>/ascmhl/<file>
            parts = r["path"].split("/")
            child_rel = "/".join(parts[:-2]) if len(parts) >= 2 else ""
            target = os.path.join(hroot, *parts)
            present = target in snap and snap[target][0] == "f"
            mt2 = GEN_NAME.match(parts[-1])
            g["refs"].append(
                {
                    "h": list(ah) + list(w.apath_of_rel(child_rel)) if child_rel else list(ah),
                    "name": parts[-1],
                    "n": int(mt2.group(1)) if mt2 else -1,
                    "shape": len(parts) >= 3 and parts[-2] == "ascmhl" and _relpath_ok(r["path"]),
                    "present": present,
                    "c4ok": present and c4_of(self._read(target)) == r["c4"],
                }
            )
        g["snap"] = self.snapdisk.get(path, [])
        if raw:
            g["rawm"] = m
        return g

    # -- directory hash oracle (C07): called right after a create ---------------------------
    def judge_dirhashes(self, snap, new_manifests, cmd_root_abs, eff_patterns):
        """For each new manifest, compare every recorded directory / root hash with the reference
        evaluator over the current tree restricted to entries not matched by eff_patterns
        (matched on the path relative to the command root)."""
        w = self.w
        spec = self.spec(eff_patterns)
        tree_cache = {}

        def tree_of(dir_abs):
            if dir_abs in tree_cache:
                return tree_cache[dir_abs]
            t = {}
            for p, meta in snap.items():
                if os.path.dirname(p) != dir_abs:
                    continue
                rel = os.path.relpath(p, cmd_root_abs).replace(os.sep, "/")
                if spec.match_file(rel):
                    continue
                name = os.path.basename(p)
                if meta[0] == "d":
                    t[name] = tree_of(p)
                else:
                    t[name] = p
            tree_cache[dir_abs] = t
            return t

        digests = {}

        def fdig(fmt):
            def f(path):
                k = (fmt, path)
                if k not in digests:
                    with open(path, "rb") as fh:
                        digests[k] = oracle.digest(fmt, fh.read())
                return digests[k]

            return f

        for mp in new_manifests:
            key = (mp, snap[mp][1])
            if key not in self.cache:
                data = self._read(mp)
                m = parse_manifest(data)
                ok, why = xsd_valid("manifest", data)
                m["xsd_ok"], m["xsd_why"] = ok, why
                self.cache[key] = m
            m = self.cache[key]
            if "broken" in m:
                continue
            hroot = os.path.dirname(os.path.dirname(mp))
            verdict = {}
            recs = [(r["path"], r) for r in m["dirs"]]
            if m["root"] is not None:
                recs.append((".", m["root"]))
            for rel, r in recs:
                d_abs = os.path.normpath(os.path.join(hroot, rel)) if rel not in (None, ".") else hroot
                v = {}
                smap = {e["f"]: e["d"] for e in r["structure"]}
                for e in r["content"]:
                    fmt = e["f"]
                    if fmt not in oracle.FORMATS or d_abs not in snap and d_abs != hroot:
                        v[fmt] = (False, False)
                        continue
                    try:
                        c, s = oracle.dir_hashes(tree_of(d_abs), fmt, fdig(fmt))
                    except Exception:
                        v[fmt] = (False, False)
                        continue
                    v[fmt] = (c == e["d"], s == smap.get(fmt))
                verdict[rel] = v
            self.dirverdict[mp] = verdict


def _hs(r):
    sm = {e["f"]: e["d"] for e in r["structure"]}
    return [{"f": e["f"], "c": e["d"] or "", "s": sm.get(e["f"]) or ""} for e in r["content"]]


def _relpath_ok(p):
    if p is None or p == "":
        return False
    # (a backslash is an ordinary character of a POSIX file name; whether every component names the real entry is
    # decided by the record-set clauses, which map components back to the names on disk)
    if p.startswith("/") or re.match(r"^[A-Za-z]:[\\/]", p):
        return False
    parts = p.split("/")
    return ".." not in parts and "" not in parts
