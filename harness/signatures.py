"""Signatures of recorded (open) known findings: a structured predicate over the violating step.

known_findings.json entry: {"property", "id", "status": "open"|"fixed", "clause", "signature": <name>, "what"}.
A false Layer-P clause on a real step is a KNOWN-FINDING iff an open entry for the same property
and clause has a signature function returning True for that step; anything else is a VIOLATION.
"""

SIGS = {}


def sig(name):
    def deco(fn):
        SIGS[name] = fn
        return fn

    return deco


def match(known, pid, clause, line, verdict):
    for k in known:
        if k["property"] != pid or k.get("status") != "open":
            continue
        if k.get("clause") and k["clause"] != clause:
            continue
        fn = SIGS.get(k["signature"])
        if fn and fn(line, verdict):
            return k
    return None


@sig("dh_mixed_formats_exit0")
def dh_mixed_formats_exit0(line, verdict):
    """F4b: verify -dh exits 0 on a changed tree while the loaded histories use non-uniform formats"""
    return (
        line["op"]["op"] == "verifydh"
        and line["exit"] == 0
        and verdict.get("A_changed") is True
        and verdict.get("A_uniform") is False
    )


@sig("ambiguous_rename_history")
def ambiguous_rename_history(line, verdict):
    """F17: false alarm after create -dr when two recorded paths share their content and one is gone"""
    return line["op"]["op"] in ("create", "verify", "diff") and line["exit"] == 10 and verdict.get("A_ambig") is True


@sig("author_name_dash")
def author_name_dash(line, verdict):
    """F18: only the authors differ, and one of the written author names is exactly '-'"""
    names = line.get("author_names") or []
    diffs = (line.get("tool_bad") or []) + (line.get("indep_bad") or [])
    return "-" in names and bool(diffs) and all(d.startswith("authors:") for d in diffs)
