"""Running TLC / SANY and rendering Python values as TLA+."""
import json
import os
import re
import shutil
import subprocess
import tempfile
import time

VERIF = os.path.dirname(os.path.dirname(os.path.abspath(__file__)))
SPEC = os.path.join(VERIF, "spec")
JAR = "/opt/veriftools/tla/tla2tools.jar"
SCRATCH = os.environ.get("VERIF_SCRATCH", "/dev/shm")


class Fn(dict):
    """a TLA+ function with explicit domain (rendered with :> and @@)"""


class Rec(dict):
    """a TLA+ record"""


class Raw(str):
    """verbatim TLA+ text"""


def tla(v):
    if isinstance(v, Raw):
        return str(v)
    if isinstance(v, bool):
        return "TRUE" if v else "FALSE"
    if isinstance(v, int):
        return str(v)
    if isinstance(v, str):
        return json.dumps(v, ensure_ascii=True)
    if isinstance(v, (tuple, list)):
        return "<<" + ", ".join(tla(x) for x in v) + ">>"
    if isinstance(v, (set, frozenset)):
        return "{" + ", ".join(sorted(tla(x) for x in v)) + "}"
    if isinstance(v, Rec):
        return "[" + ", ".join("%s |-> %s" % (k, tla(x)) for k, x in v.items()) + "]"
    if isinstance(v, (Fn, dict)):
        if not v:
            return "<<>>"
        return "(" + " @@ ".join("%s :> %s" % (tla(k), tla(x)) for k, x in v.items()) + ")"
    raise TypeError(type(v))


def _java_cp():
    return JAR + ":/opt/veriftools/tla/CommunityModules-deps.jar"


class TLCResult:
    def __init__(self):
        self.rc = None
        self.out = ""
        self.states = 0
        self.distinct = 0
        self.depth = 0
        self.violation = None
        self.errors = []
        self.wall = 0.0
        self.coverage = {}
        self.exhausted = True

    @property
    def ok(self):
        return self.rc == 0 and not self.violation and not self.errors


def workdir(tag):
    d = tempfile.mkdtemp(prefix="mhl-verif-tlc-%s-" % tag, dir=SCRATCH)
    return d


def prepare(wd, modules=None):
    """copy the spec modules into the working directory"""
    for f in os.listdir(SPEC):
        if f.endswith(".tla") or f.endswith(".cfg"):
            shutil.copy(os.path.join(SPEC, f), os.path.join(wd, f))


def run_tlc(wd, module, cfg, workers=16, extra=(), env=None, timeout=3600, simulate=None, deadlock=False, heap="8g"):
    cp = _java_cp()
    cmd = ["java", "-Xmx" + heap, "-XX:+UseParallelGC", "-cp", cp, "tlc2.TLC", "-workers", str(workers), "-metadir", os.path.join(wd, "states-%s" % os.path.basename(cfg)), "-noGenerateSpecTE", "-config", cfg]
    if not deadlock:
        cmd.append("-deadlock")  # TLC flag: do NOT check deadlock
    if simulate:
        cmd += ["-simulate", simulate]
    cmd += list(extra) + [module]
    e = dict(os.environ)
    if env:
        e.update(env)
    t0 = time.time()
    r = TLCResult()
    proc = subprocess.Popen(cmd, cwd=wd, env=e, stdout=subprocess.PIPE, stderr=subprocess.STDOUT)
    try:
        out, _ = proc.communicate(timeout=timeout)
        r.rc = proc.returncode
    except subprocess.TimeoutExpired:
        # time-bounded search: what was explored so far (last progress line) counts, the run is marked as not exhausted
        proc.kill()
        out, _ = proc.communicate()
        r.rc = 0
        r.exhausted = False
    r.wall = time.time() - t0
    r.out = out.decode("utf8", "replace")
    # final summary "N states generated, M distinct states found" or, for a run stopped at its time budget, the last
    # progress line "Progress(d) at ...: 1,234 states generated (.. s/min), 567 distinct states found (.. ds/min), ..."
    m = re.findall(r"([\d,]+) states generated(?: \([^)]*\))?, ([\d,]+) distinct states found", r.out)
    if m:
        r.states, r.distinct = int(m[-1][0].replace(",", "")), int(m[-1][1].replace(",", ""))
    md = re.findall(r"Progress\((\d+)\)", r.out)
    if md and not getattr(r, "exhausted", True):
        r.depth = int(md[-1])
    m = re.search(r"The depth of the complete state graph search is (\d+)", r.out)
    if m:
        r.depth = int(m.group(1))
    m = re.search(r"Error: Invariant (\S+) is violated", r.out)
    if m:
        r.violation = m.group(1)
    m2 = re.search(r"Error: Action property (\S+) is violated", r.out)
    if m2:
        r.violation = m2.group(1)
    if "Error:" in r.out and not r.violation:
        r.errors = re.findall(r"Error: (.*)", r.out)[:5]
    return r


def printed(out, tag):
    """values printed with PrintT(<<tag, jsonstring>>): yields decoded JSON objects"""
    pref = '<<"%s", "' % tag
    for line in out.splitlines():
        if line.startswith(pref) and line.endswith('">>'):
            s = line[len(pref) - 1: -2]
            try:
                yield json.loads(json.loads(s))
            except Exception:
                continue


def sany(path):
    cp = _java_cp()
    p = subprocess.run(["java", "-cp", cp, "tla2sany.SANY", os.path.basename(path)], cwd=os.path.dirname(path), stdout=subprocess.PIPE, stderr=subprocess.STDOUT)
    out = p.stdout.decode()
    ok = p.returncode == 0 and "Semantic errors" not in out and "***Parse Error***" not in out and "Fatal errors" not in out
    return ok, out
