"""C13: the same behaviour under several environments (location, spelling of the root argument,
directory listing order) must be observationally identical."""
import collections
import json

from . import campaign as C
from . import scopes, tlc, validate
from . import run as R

VARIANTS = [
    {"location": "plain", "spelling": "abs"},
    {"location": "deep", "spelling": "slash", "listing": 11},
    {"location": "ascmhl_parent", "spelling": "rel", "listing": 23},
    {"location": "dsstore_parent", "spelling": "abs", "listing": 5},
    {"location": "pattern_parent", "spelling": "dot", "listing": 42},
    {"location": "x_parent", "spelling": "dotrel", "listing": 7},
    {"location": "link_parent", "spelling": "abs", "listing": 3},
    {"location": "link_root", "spelling": "abs", "listing": 9},
]


def group_specs(scope_name, behs, seed, names_cycle=("plain", "mixed", "space", "case")):
    sc = scopes.SCOPES[scope_name]
    specs = []
    for k, b in enumerate(behs):
        base = C.to_specs(scope_name, [b], seed=seed, variants=[{"names": names_cycle[k % len(names_cycle)]}], tag="-g%d" % k)[0]
        for j, v in enumerate(VARIANTS):
            s = json.loads(json.dumps(base))
            s["tid"] = "%s-g%d-v%d" % (scope_name, k, j)
            s["group"] = "%s-g%d" % (scope_name, k)
            s["world"].update(v)
            s["env_obs"] = True
            specs.append(s)
    return specs


def run_groups(specs, nproc=16):
    lines, errs = C.replay(specs, nproc=nproc)
    by_group = collections.defaultdict(lambda: collections.defaultdict(dict))
    gspec = {}
    for s in specs:
        gspec[s["tid"]] = s
    for ln in lines:
        s = gspec[ln["tid"]]
        v = int(ln["tid"].rsplit("-v", 1)[1])
        by_group[s["group"]][ln["i"]][v] = ln
    glines = []
    for g, steps in sorted(by_group.items()):
        for i, vs in sorted(steps.items()):
            if len(vs) != len(VARIANTS):
                continue
            first = vs[0]
            glines.append({
                "tid": g, "i": i, "op": first["op"],
                "variants": [
                    {"env": VARIANTS[k], "exit": vs[k]["exit"], "hbytes": vs[k]["hbytes"], "wrote": vs[k]["wrote"],
                     "out": {kk: vs[k]["out"][kk] for kk in ("missing", "mismatch", "new", "nmissing", "nmismatch", "nnew", "nrenamed")},
                     "copies": vs[k]["copies"], "exc": vs[k]["exc"][:200]}
                    for k in sorted(vs)
                ],
            })
    return glines, errs, lines
