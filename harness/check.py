"""bin/check entry point: per-property checks, evidence, known findings, replay files."""
import argparse
import collections
import hashlib
import json
import os
import sys
import time
import traceback

VERIF = os.path.dirname(os.path.dirname(os.path.abspath(__file__)))


class Outcome:
    def __init__(self, pid, tier, seed, level):
        self.pid, self.tier, self.seed, self.level = pid, tier, seed, level
        self.t0 = time.time()
        self.coverage = collections.OrderedDict(
            states=0, transitions=0, traces_validated_against_impl=0, evaluations=0, distinct_nontrivial=0, rule="", samples=[]
        )
        self.assumptions = []
        self.violations = []  # (clause, description, replay_spec)
        self.known = collections.OrderedDict()  # finding id -> count
        self.machinery = []  # machinery failures (exit 2)
        self.notes = {}

    def add_model(self, r, name):
        self.coverage["states"] += r.distinct
        self.coverage["transitions"] += r.states
        self.coverage.setdefault("model_runs", []).append(
            {"model": name, "distinct_states": r.distinct, "states_generated": r.states, "depth": r.depth, "wall_s": round(r.wall, 1), "ok": r.ok, "exhausted": getattr(r, "exhausted", True)}
        )
        if not r.ok:
            self.machinery.append("model check %s: violation=%s errors=%s\n%s" % (name, r.violation, r.errors, getattr(r, "trace_tail", "")[-2500:]))

    def violation(self, clause, desc, spec, step=None):
        self.violations.append((clause, desc, spec, step))

    def finish(self):
        os.makedirs(os.path.join(VERIF, "evidence"), exist_ok=True)
        os.makedirs(os.path.join(VERIF, "replays"), exist_ok=True)
        reported = 0
        seen = set()
        for clause, desc, spec, step in self.violations:
            key = hashlib.sha1(json.dumps([clause, spec], sort_keys=True, default=str).encode()).hexdigest()[:12]
            if key in seen:
                continue
            seen.add(key)
            path = os.path.join(VERIF, "replays", "%s-%s.json" % (self.pid, key))
            with open(path, "w") as fh:
                json.dump({"property": self.pid, "clause": clause, "step": step, "what": desc, "spec": spec}, fh, indent=1, default=str)
            if reported < 20:
                print("VIOLATION property=%s replay=%s clause=%s %s" % (self.pid, path, clause, desc))
                reported += 1
        # every open finding listed for this property is printed, with the number of times this run met it
        for k in load_known():
            if k["property"] == self.pid and k.get("status") == "open" and k["id"] not in self.known:
                self.known[k["id"]] = (0, k["what"])
        for fid, (n, what) in self.known.items():
            print("KNOWN-FINDING: property=%s %s (%s; %d occurrence(s) in this run)" % (self.pid, what, fid, n))
        ev = {
            "property_id": self.pid,
            "tier": self.tier,
            "seed": self.seed,
            "level": self.level,
            "coverage": self.coverage,
            "assumptions": self.assumptions,
            "wall_s": round(time.time() - self.t0, 2),
            "violations": len(seen),
        }
        ev["coverage"]["known_findings_seen"] = {k: v[0] for k, v in self.known.items()}
        ev["coverage"].update(self.notes)
        with open(os.path.join(VERIF, "evidence", "%s.json" % self.pid), "w") as fh:
            json.dump(ev, fh, indent=1, default=str)
        if self.machinery:
            for m in self.machinery:
                print("MACHINERY-FAILURE property=%s %s" % (self.pid, m), file=sys.stderr)
            return 2
        if seen:
            return 1
        print("OK property=%s tier=%s states=%d transitions=%d traces=%d steps=%d nontrivial=%d wall=%.1fs" % (
            self.pid, self.tier, self.coverage["states"], self.coverage["transitions"], self.coverage["traces_validated_against_impl"],
            self.coverage["evaluations"], self.coverage["distinct_nontrivial"], time.time() - self.t0))
        return 0


def load_known():
    p = os.path.join(VERIF, "known_findings.json")
    if not os.path.exists(p):
        return []
    return json.load(open(p)).get("findings", [])


def main(argv=None):
    ap = argparse.ArgumentParser()
    ap.add_argument("pid")
    ap.add_argument("--tier", default=os.environ.get("VERIF_TIER", "quick"), choices=["quick", "thorough"])
    ap.add_argument("--replay", default=None)
    ap.add_argument("--seed", type=int, default=int(os.environ.get("VERIF_SEED", "0") or 0))
    a = ap.parse_args(argv)
    from . import props

    try:
        if a.replay:
            return props.replay(a.pid, a.replay)
        fn = props.REGISTRY[a.pid]
        out = fn(a.tier, a.seed)
        return out.finish()
    except SystemExit:
        raise
    except Exception:
        traceback.print_exc()
        print("MACHINERY-FAILURE property=%s unexpected exception" % a.pid, file=sys.stderr)
        return 2


if __name__ == "__main__":
    sys.exit(main())
