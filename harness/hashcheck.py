"""C01: digests over the exact bytes.  Records the real read loop (every fd.read and every hasher
update) through harness-side wrappers, checks it against MhlHasher's loop, and compares every
digest string with an independent one-shot oracle."""
import builtins
import hashlib
import itertools
import os
import random
import shutil
import tempfile

from . import oracle
from . import world as W  # noqa: F401

import ascmhl.commands as C
import ascmhl.hasher as H
from click.testing import CliRunner

CHUNK = 1024 * 1024
CLI_FORMATS = ["c4", "md5", "sha1", "xxh128", "xxh3", "xxh64"]
LENGTHS_QUICK = [0, 1, CHUNK - 1, CHUNK, CHUNK + 1, 2 * CHUNK + 7]
LENGTHS_THOROUGH = LENGTHS_QUICK + [2, 4096, 3 * CHUNK, 3 * CHUNK + 1, 5 * CHUNK + 123457]


def content(n, seed):
    rnd = random.Random(seed)
    block = bytes(rnd.getrandbits(8) for _ in range(4099))
    return (block * (n // len(block) + 1))[:n]


class Recorder:
    """wraps ascmhl.hasher's `open` and hasher factory; logs read / update events with chunk ids"""

    def __init__(self):
        self.events = []

    def __enter__(self):
        rec = self
        self._open = getattr(H, "open", None)
        self._new = H.new_hasher_for_hash_type

        class F:
            def __init__(self, path, mode):
                self.f = builtins.open(path, mode)
                self.path = path

            def read(self, n=-1):
                data = self.f.read(n)
                rec.current = self.path
                rec.events.append({"k": "read", "f": "", "n": n, "got": len(data), "id": hashlib.sha1(data).hexdigest()[:12], "p": self.path})
                if not data:
                    rec.current = ""   # the loop over this file has ended
                return data

            def readinto(self, b):
                n = self.f.readinto(b)
                data = bytes(memoryview(b)[:n]) if n else b""
                rec.current = self.path
                rec.events.append({"k": "read", "f": "", "n": len(b), "got": len(data), "id": hashlib.sha1(data).hexdigest()[:12], "p": self.path})
                if not data:
                    rec.current = ""
                return n

            def __getattr__(self, name):      # anything else goes straight to the real file object
                return getattr(self.f, name)

            def __enter__(self):
                return self

            def __exit__(self, *a):
                self.f.close()
                return False

            def close(self):
                self.f.close()

        def opener(path, mode="r", *a, **kw):
            if "b" in mode and "r" in mode:
                return F(path, mode)
            return builtins.open(path, mode, *a, **kw)

        names = {t.value: t.name for t in H.HashType}
        orig_update = H.Hasher.update
        rec._orig_update = orig_update

        def update(self_h, data):
            rec.events.append({"k": "update", "f": names.get(type(self_h), type(self_h).__name__), "n": 0, "got": len(data), "id": hashlib.sha1(bytes(data)).hexdigest()[:12], "p": getattr(rec, "current", "")})
            return orig_update(self_h, data)

        H.Hasher.update = update
        H.open = opener
        return self

    def __exit__(self, *a):
        if self._open is None:
            del H.open
        else:
            H.open = self._open
        H.Hasher.update = self._orig_update
        return False


def run_case(args):
    k, n, fmts, ep, seed = args
    data = content(n, "%s-%s" % (seed, k))
    wd = tempfile.mkdtemp(prefix="mhl-verif-hash-", dir=os.environ.get("VERIF_SCRATCH", "/dev/shm"))
    try:
        root = os.path.join(wd, "vol")
        os.makedirs(root)
        path = os.path.join(root, "clip.mov")
        with open(path, "wb") as fh:
            fh.write(data)
        want = {f: oracle.digest(f, data) for f in fmts}
        got, events, note, first_verify = {}, [], "", []
        with Recorder() as rec:
            if ep == "hash_file":
                got = {fmts[0]: H.hash_file(path, fmts[0])}
            elif ep == "class_hash_file":
                got = {fmts[0]: H.HashType[fmts[0]].value.hash_file(path)}
            elif ep == "aggregate":
                got = H.multiple_format_hash_file(path, list(fmts))
            elif ep == "hash_data":
                got = {fmts[0]: H.hash_data(data, fmts[0])}
            elif ep == "stream":
                # the streaming interface: data fed in uneven pieces, the digest read after every piece (and before the
                # first): each reading must be the digest of exactly the bytes fed so far
                import random as _r
                rr = _r.Random("%s-%s" % (seed, k))
                cuts = sorted({0, n} | {rr.randint(0, n) for _ in range(4)} | ({1, n - 1} if n > 2 else set()))
                hs_ = H.new_hasher_for_hash_type(fmts[0])
                ok = hs_.string_digest() == oracle.digest(fmts[0], b"")
                for a_, b_ in zip(cuts, cuts[1:]):
                    hs_.update(data[a_:b_])
                    d_ = hs_.string_digest()
                    if d_ != oracle.digest(fmts[0], data[:b_]):
                        ok = False
                        note = "digest after %d of %d bytes is %s" % (b_, n, d_)
                        break
                got = {fmts[0]: hs_.string_digest()} if ok else {fmts[0]: "stale:" + note}
            elif ep == "multi_data":
                got = H.multiple_format_hash_data(data, list(fmts))
            elif ep == "cli_hash":
                res = CliRunner(mix_stderr=False).invoke(C.hash, [path, "-h", fmts[0]])
                out = res.stdout.strip()
                got = {fmts[0]: out.rsplit(" = ", 1)[-1] if " = " in out else "?"}
                note = "exit=%s" % res.exit_code
            elif ep in ("create", "verify"):
                args_ = [root]
                for f in fmts:
                    args_ += ["-h", f]
                res = CliRunner(mix_stderr=False).invoke(C.create, args_)
                note = "exit=%s" % res.exit_code
                from . import project as PJ
                folder = os.path.join(root, "ascmhl")
                names = sorted(x for x in os.listdir(folder) if x.endswith(".mhl")) if os.path.isdir(folder) else []
                if names:
                    with open(os.path.join(folder, names[0]), "rb") as fh:
                        m = PJ.parse_manifest(fh.read())
                    got = {e["f"]: e["d"] for r in m["files"] for e in r["ents"]}
                if ep == "verify":
                    rec.events.clear()
                    res2 = CliRunner(mix_stderr=False).invoke(C.verify, [root])
                    note += " verify=%s" % res2.exit_code
                    got = dict(got) if res2.exit_code == 0 else {}
                    first_verify = list(rec.events)
                    # flip one byte and make sure verify notices (the digest really covers the bytes)
                    if n > 0:
                        b = bytearray(data)
                        b[(k * 7919) % n] ^= 0x01
                        with open(path, "wb") as fh:
                            fh.write(bytes(b))
                        res3 = CliRunner(mix_stderr=False).invoke(C.verify, [root])
                        note += " verify_flipped=%s" % res3.exit_code
                        if res3.exit_code != 11:
                            got = {}
            events = [e for e in (first_verify if ep == "verify" else rec.events)]
        # keep only the events of the media file (create / verify also hash manifests for chain and references)
        if ep in ("create", "verify"):
            events = [e for e in events if e.get("p") == path]
        events = [{k_: v_ for k_, v_ in e.items() if k_ != "p"} for e in events]
        return {"tid": "hash-%d" % k, "i": 0, "len": n, "fmts": list(fmts), "ep": ep, "chunk": CHUNK, "events": events, "loop_fmts": [sorted(fmts)[0]] if ep == "verify" else list(fmts), "note": note, "op": {"op": ep}, "exit": 0,
                "digests_ok": all(got.get(f) == want[f] for f in fmts) and set(got) >= set(fmts),
                "diff": [[f, got.get(f, ""), want[f]] for f in fmts if got.get(f) != want[f]][:2],
                "reads_file": ep not in ("hash_data", "multi_data", "stream")}
    finally:
        shutil.rmtree(wd, ignore_errors=True)


# ---- C4 codec on boundary values --------------------------------------------------------
def codec_values(seed, extra=200):
    vals = {0, 1, 57, 58, 2**512 - 1, 2**511, 58**87 - 1, 58**87, 58**88 - 1 if 58**88 - 1 < 2**512 else 2**512 - 1}
    for k in range(1, 88):
        for d in (-1, 0, 1):
            v = 58**k + d
            if 0 <= v < 2**512:
                vals.add(v)
    rnd = random.Random(seed)
    for _ in range(extra):
        vals.add(rnd.getrandbits(rnd.choice([8, 64, 300, 505, 512])))
    return sorted(vals)


def codec_case(v):
    class Fake:
        def hexdigest(self_inner):
            return "%0128x" % v

    c = H.C4()
    c.hasher = Fake()
    s = c.string_digest()
    ok_enc = s == oracle.c4_encode_int(v)
    try:
        back = H.C4.bytes_from_string_digest(s)
        ok_dec = back == v.to_bytes(64, "big")
    except Exception:
        ok_dec = False
    return {"v_bits": v.bit_length(), "text": s, "enc_ok": ok_enc, "dec_ok": ok_dec, "len_ok": len(s) == 90 and s.startswith("c4")}
