"""Per-property check definitions (REGISTRY: property id -> function(tier, seed) -> Outcome)."""
import collections
import json
import os
import sys

from . import campaign as C
from . import scopes
from .check import Outcome, load_known, VERIF
from . import signatures

REGISTRY = {}

COMMON_ASSUMPTIONS = [
    "digest collision freedom (abstract contents are mapped to digests injectively)",
    "TLC 1.8 / CommunityModules Json+IOUtils, CPython, lxml, pathspec, freezegun are trusted",
    "projection (harness/project.py, ElementTree based) and reference evaluator (harness/oracle.py) are trusted; exercised by bin/selftest",
    "symlinks, Windows path handling, files outside the root and removal of directories that hold a history are outside the generated scenarios",
]


def register(pid):
    def deco(fn):
        REGISTRY[pid] = fn
        return fn

    return deco


def sample_of(spec, lines, nsteps=6):
    return {
        "tid": spec["tid"],
        "world": {k: spec["world"][k] for k in ("names", "location", "listing", "spelling") if k in spec["world"]},
        "ops": spec["ops"],
        "observed_exits": [ln["exit"] for ln in lines][:nsteps],
    }


def _rename_chain(b, n=3):
    """at least n generations that each seal a fresh rename (rename directly followed by create)"""
    return sum(1 for i in range(1, len(b)) if b[i]["op"] == "create" and b[i - 1]["op"] == "rename") >= n


def _flatten_two_gens(b):
    """a flatten (or verify -pl) after at least two generations"""
    n = 0
    for o in b:
        if o["op"] in ("create", "createsf"):
            n += 1
        elif o["op"] in ("flatten", "verifypl") and n >= 2:
            return True
    return False


def _failed_then_format(b):
    """three generations with an alteration before the second and before the third, the third in another format, then flatten"""
    cr = [i for i, o in enumerate(b) if o["op"] == "create"]
    if len(cr) < 3 or b[-1]["op"] not in ("flatten", "verifypl"):
        return False
    alt = lambda lo, hi: any(o["op"] == "alter" for o in b[lo:hi])
    return alt(cr[0], cr[1]) and alt(cr[1], cr[2]) and b[cr[2]]["F"] != b[cr[0]]["F"]


def _two_renames(b):
    """two or more renames between two creates (several files moved in one generation gap)"""
    seen, n = False, 0
    for o in b:
        if o["op"] == "create":
            if seen and n >= 2:
                return True
            seen, n = True, 0
        elif o["op"] == "rename" and seen:
            n += 1
    return False


def _rename_and_nested(b):
    """a rename, a generation in a nested history, and a read command at the end"""
    return (any(o["op"] == "rename" for o in b) and any(o["op"] == "create" and list(o["R"]) for o in b)
            and b[-1]["op"] in ("verify", "diff"))


SELECT = {"rename_and_nested": _rename_and_nested, "rename_chain3": _rename_chain, "flatten_two_gens": _flatten_two_gens, "failed_then_format": _failed_then_format, "two_renames": _two_renames}


def history_campaign(out, pid, plans, pclauses, antecedent, seed, mclauses=None, line_filter=None):
    """Run the plans; fill out (Outcome). Each plan: dict(scope, mode, maxops, num, depth, mc(bool), invariants, props,
    variants)."""
    known = [k for k in load_known() if k["property"] == pid and k.get("status") == "open"]
    nontrivial_behs = set()
    total_steps = 0
    drift = collections.Counter()
    clause_counts = collections.Counter()
    samples = []
    for plan in plans:
        scope = plan["scope"]
        if plan.get("mc", True):
            r = C.model_check(scope, invariants=plan.get("invariants"), props=plan.get("props", ()), maxgens=plan.get("mc_maxgens"),
                              simulate=plan.get("mc_simulate"), depth=plan.get("mc_depth", 14), seed=seed, timeout=plan.get("mc_timeout", 200))
            out.add_model(r, "MhlHistoryMC/%s%s" % (scope, " (random walks)" if plan.get("mc_simulate") else ""))
        if plan.get("behaviours") is not None:
            behs = plan["behaviours"]
        else:
            behs, er = C.export(scope, mode=plan.get("mode", "exhaustive"), num=plan.get("num", 1000), depth=plan.get("depth"),
                                seed=seed + plan.get("seed_offset", 0), maxops=plan.get("maxops"), maxgens=plan.get("maxgens"))
            out.coverage.setdefault("export_runs", []).append({"scope": scope, "mode": plan.get("mode", "exhaustive"), "behaviours": len(behs), "tlc_states": er.states})
        if plan.get("select"):
            # a named subset of the exported behaviours (the export itself stays exhaustive within its bounds)
            n0 = len(behs)
            behs = [b for b in behs if SELECT[plan["select"]](b)]
            out.coverage["export_runs"][-1]["selected"] = {"rule": plan["select"], "kept": len(behs), "of": n0}
        if (not plan.get("limit") or plan["limit"] > 3000) and len(behs) > 3000:
            plan = dict(plan, limit=3000)       # no plan replays more than 3000 behaviours (seeded sample of the export)
        if plan.get("limit") and len(behs) > plan["limit"]:
            import random

            rnd = random.Random(seed * 7919 + 13)
            behs = rnd.sample(behs, plan["limit"])
        specs = C.to_specs(scope, behs, seed=seed, variants=plan.get("variants"), tag=plan.get("tag", ""))
        lines, errs = C.replay(specs)
        for e in errs[:3]:
            out.machinery.append("harness error in %s: %s" % (e.get("tid"), e.get("harness_error", "")[-1500:]))
        if line_filter:
            lines = [ln for ln in lines if line_filter(ln)]
        verdicts, diags = C.judge(scope, lines, tag="%s-%s" % (pid, scope))
        for d in diags[:3]:
            out.machinery.append("trace validation stopped early in shard %s at %s: %s" % (d["shard"], d["first_unjudged"], d["tail"][-1500:]))
        by_tid = collections.defaultdict(list)
        for ln in lines:
            by_tid[ln["tid"]].append(ln)
        spec_by_tid = {s["tid"]: s for s in specs}
        total_steps += len(verdicts)
        out.coverage["traces_validated_against_impl"] += len(by_tid)
        for ln in lines:
            v = verdicts.get((ln["tid"], ln["i"]))
            if v is None:
                continue
            if antecedent(ln, v):
                nontrivial_behs.add(C.beh_key(spec_by_tid[ln["tid"]]["ops"]))
            for c in pclauses:
                if c in v:
                    clause_counts[c] += 1
                    if v[c] is False:
                        fid = signatures.match(known, pid, c, ln, v)
                        if fid:
                            n, what = out.known.get(fid["id"], (0, fid["what"]))
                            out.known[fid["id"]] = (n + 1, what)
                        else:
                            out.violation(c, "step %d op=%s exit=%s" % (ln["i"], json.dumps(ln["op"], sort_keys=True), ln["exit"]), spec_by_tid[ln["tid"]], ln["i"])
            for c, val in v.items():
                if c.startswith("M_") and val is False:
                    drift[c] += 1
        for tid in list(by_tid)[:2]:
            if len(samples) < 4:
                samples.append(sample_of(spec_by_tid[tid], by_tid[tid]))
    out.coverage["evaluations"] += total_steps
    out.coverage["distinct_nontrivial"] += len(nontrivial_behs)
    out.coverage["samples"] += samples
    out.coverage["clause_evaluations"] = dict(clause_counts)
    out.coverage["drift"] = dict(drift)
    return out


def replay(pid, path):
    """re-execute a replay file and print the verdict of the recorded clause"""
    from . import run as R
    from . import validate

    rep = json.load(open(path))
    spec = rep["spec"]
    clause = rep["clause"]
    kind = spec.get("kind", "history")
    lines, module, names = [], "MhlHistoryTrace", []
    if kind == "history" and "variants" in spec:                      # C13 group of environments
        from . import envcheck as E
        specs = []
        for j, v in enumerate(spec["variants"]):
            s = json.loads(json.dumps({k: spec[k] for k in spec if k != "variants"}))
            s["tid"], s["group"], s["env_obs"] = "replay-g0-v%d" % j, "replay-g0", True
            s["world"].update(v)
            specs.append(s)
        lines, errs, _ = E.run_groups(specs, nproc=1)
        module = "MhlEnv"
    elif kind == "history":
        lines = R.execute(spec)
        names = sorted({a for p in spec["world"]["files"] + spec["world"]["dirs"] for a in p})
    elif kind == "crash":
        from . import commitcheck as CC
        for buffered in (False, True):
            ref = CC.reference_run(spec["layout"], spec["prior"], spec.get("names", "plain"), buffered=buffered)
            if spec["k"] < ref["n"]:
                lines.append(CC.crash_case((spec["layout"], spec["prior"], spec.get("names", "plain"), spec["k"], spec["mode"], ref)))
        module = "MhlCommitTrace"
    elif kind == "bigman":
        from . import commitcheck as CC
        b = CC.big_manifest_case((4200, spec["cmd"]))
        bad = b["exit"] != 31 or bool(b["delta"])
        print("big manifest (%d bytes, byte %d changed): %s exit=%s delta=%s P_C05_Refuse=%s" % (b["size"], b["pos"], b["cmd"], b["exit"], b["delta"], not bad))
        if bad:
            print("VIOLATION property=%s replay=%s clause=P_C05_Refuse" % (pid, path))
        return 1 if bad else 0
    elif kind == "tamper":
        from . import commitcheck as CC
        lines = [ln for ln in CC.tamper_case((0, {"st": spec["state"]}, spec["edit"], "plain", 0)) if ln["cmd"] == spec["cmd"] and ln["R"] == spec["R"]]
        module = "MhlTamperTrace"
    elif kind == "xml":
        from . import xmlcheck as X
        lines = [X.run_case((spec.get("k", 0), spec["doc"], spec.get("seed", 0)))]
        module = "MhlXmlTrace"
    elif kind == "time":
        from . import timecheck as T
        lines = [T.run_cell((spec["zone"], spec["t"], spec["now"], spec["size"], 0))]
        module = "MhlTimeTrace"
    elif kind == "hash":
        from . import hashcheck as HC
        lines = [HC.run_case((spec.get("k", 0), spec["len"], spec["fmts"], spec["ep"], spec.get("seed", 0)))]
        module = "MhlHasherTrace"
    elif kind == "codec":
        from . import hashcheck as HC
        r = HC.codec_case(int(spec["value_hex"], 16))
        print("value %s -> %s encode_ok=%s decode_ok=%s" % (spec["value_hex"], r["text"], r["enc_ok"], r["dec_ok"]))
        bad = not (r["enc_ok"] and r["dec_ok"] and r["len_ok"])
        if bad:
            print("VIOLATION property=%s replay=%s clause=%s" % (pid, path, clause))
        return 1 if bad else 0
    elif kind == "update":
        from . import updatecheck as UC
        inv = {v: k for k, v in UC.VERSION_CLASS.items()}
        lines = [UC.run_case((0, spec["group"].split(" ")[0], spec["server"], spec["version"] if spec["version"] in UC.VERSIONS else inv.get(spec["version"], "newer"),
                              spec["timing"] if spec["timing"] in UC.TIMINGS else "before", spec["cmd"]))]
        module = "MhlUpdaterTrace"
    for ln in lines:
        if "harness_error" in ln:
            print(ln["harness_error"])
            return 2
    verdicts, diags = validate.validate(lines, names, trace_module=module, shards=1, tag="replay")
    bad = False
    for ln in lines:
        v = verdicts.get((ln["tid"], ln["i"]), {})
        val = v.get(clause)
        print("%s step %s op=%s exit=%s %s=%s" % (ln["tid"], ln["i"], json.dumps(ln.get("op", ln.get("cmd", "")), sort_keys=True)[:160], ln.get("exit"), clause, val))
        if val is False:
            bad = True
    if bad:
        print("VIOLATION property=%s replay=%s clause=%s" % (pid, path, clause))
        return 1
    return 0


# ---------------------------------------------------------------------------------------------
def is_create(ln):
    return ln["op"]["op"] in ("create", "createsf")


@register("C04")
def c04(tier, seed):
    out = Outcome("C04", tier, seed, "model_checking")
    inv = ["Inv_C04_Judged", "Inv_C04_UnalteredOk", "Inv_NoInternal", "Inv_C06_AppendOnly"]
    if tier == "quick":
        plans = [
            dict(scope="fmt3", mode="exhaustive", maxops=4, limit=3500, invariants=inv, props=["Act_C04_FirstRefStable"]),
            dict(scope="fmt3n", mode="simulate", num=300, depth=5, mc=True, mc_maxgens=2, invariants=inv),
            dict(scope="fmt3", mode="simulate", num=40, depth=9, maxops=9, maxgens=6, limit=700, mc=False, tag="w"),
            dict(scope="deep", mode="simulate", num=30, depth=8, maxops=12, maxgens=30, limit=300, mc=False),
        ]
    else:
        plans = [
            dict(scope="fmt3", mode="exhaustive", maxops=5, invariants=inv, props=["Act_C04_FirstRefStable"]),
            dict(scope="fmt3n", mode="simulate", num=6000, depth=6, invariants=inv),
            dict(scope="fmt4", mode="simulate", num=6000, depth=5, invariants=inv),
            dict(scope="fmt3", mode="simulate", num=400, depth=11, maxops=11, maxgens=7, limit=6000, mc=False, tag="w"),
            dict(scope="fmt3n", mode="simulate", num=400, depth=10, maxops=10, maxgens=7, limit=4000, mc=False, tag="w"),
        ]
    history_campaign(
        out, "C04", plans,
        pclauses=["P_C04_Judged", "P_C04_UnalteredOk"],
        antecedent=lambda ln, v: is_create(ln) and any(h["gens"] for h in ln["pre"]["hist"]),
        seed=seed,
    )
    out.coverage["rule"] = (
        "behaviours = operation sequences exported by TLC from MhlHistoryMC (all of them up to the depth bound in scope fmt3, "
        "random walks elsewhere), each replayed on the real code; a behaviour is non-trivial when it contains a create on a "
        "path that already has a generation (so original/verified/failed/new is decided against history); distinct = distinct "
        "operation sequences"
    )
    out.coverage["exhaustive"] = tier == "thorough"
    out.assumptions = COMMON_ASSUMPTIONS
    return out


HIST_RULE = (
    "behaviours = operation sequences (tree mutations and commands with arguments) exported by TLC from the state graph of "
    "MhlHistoryMC in the named scopes (exhaustively up to the depth bound, or as seeded random walks with -simulate), each "
    "replayed on the real code under rotating naming classes (plain / spaces / non-ASCII / XML-special); every recorded step "
    "is judged by MhlHistoryTrace (Layer M prediction compared clause by clause, Layer P predicates on the observed step). "
    "A behaviour is non-trivial when at least one of its steps satisfies the antecedent named in 'antecedent'; distinct = "
    "distinct operation sequences."
)


def run_static_model(out, module, cfg=None, workers=16, timeout=3600):
    """model check a fixed module of /verif/spec (constants in the module's own MC file)"""
    import shutil
    from . import tlc

    wd = tlc.workdir("sm-" + module)
    try:
        tlc.prepare(wd)
        r = tlc.run_tlc(wd, module, cfg or (module + ".cfg"), workers=workers, timeout=timeout)
        if not r.ok:
            r.trace_tail = r.out[-6000:]
        out.add_model(r, module)
        return r
    finally:
        shutil.rmtree(wd, ignore_errors=True)


def generic(pid, level, quick, thorough, pclauses, antecedent, antecedent_text, extra_assumptions=(), models_quick=(), models_thorough=()):
    def fn(tier, seed):
        out = Outcome(pid, tier, seed, level)
        plans = quick if tier == "quick" else thorough
        for m in (models_quick if tier == "quick" else models_thorough):
            run_static_model(out, m)
        history_campaign(out, pid, [dict(p) for p in plans], pclauses=pclauses, antecedent=antecedent, seed=seed)
        out.coverage["rule"] = HIST_RULE
        out.coverage["antecedent"] = antecedent_text
        out.coverage["exhaustive"] = False
        out.assumptions = COMMON_ASSUMPTIONS + list(extra_assumptions)
        return out

    REGISTRY[pid] = fn
    return fn


def wrote_something(ln):
    return any(d["k"] == "created" and d["p"]["rest"].endswith(".mhl") for d in ln["delta"])


INV_C06 = ["Inv_C06_AppendOnly", "Inv_C06_Numbered", "Inv_NoInternal"]
generic(
    "C06", "model_checking",
    quick=[
        dict(scope="fmt3", mode="simulate", num=60, depth=5, limit=500, mc_maxgens=3, invariants=INV_C06, props=["Act_C06_AppendOnly"]),
        dict(scope="nest", mode="simulate", num=60, depth=7, limit=700, mc_maxgens=2, invariants=INV_C06, props=["Act_C06_AppendOnly"],
             variants=[{"names": "plain"}, {"names": "mixed", "autotick": False}]),
        dict(scope="long", mode="simulate", num=6, depth=8, maxops=18, maxgens=40, limit=40, mc=False),
    ],
    thorough=[
        dict(scope="long", mode="simulate", num=60, depth=14, maxops=24, maxgens=60, limit=400, mc=False),
        dict(scope="fmt3", mode="exhaustive", maxops=5, invariants=INV_C06, props=["Act_C06_AppendOnly"]),
        dict(scope="nest", mode="simulate", num=4000, depth=9, mc_maxgens=4, invariants=INV_C06, props=["Act_C06_AppendOnly"],
             variants=[{"names": "plain"}, {"names": "mixed", "autotick": False}, {"names": "unicode"}]),
        dict(scope="tree", mode="simulate", num=3000, depth=9, mc=False, variants=[{"names": "space", "autotick": False}, {"names": "xml"}]),
    ],
    pclauses=["P_C06_AppendOnly", "P_C06_Numbered", "P_C06_Bytes", "P_C06_NewEntry"],
    antecedent=lambda ln, v: is_create(ln) and wrote_something(ln) and any(h["gens"] for h in ln["pre"]["hist"]),
    antecedent_text="a create / create -sf that wrote a generation into a history that already had one",
)


def has_history(ln):
    return any(h["gens"] for h in ln["pre"]["hist"])


def nested(ln):
    return len([h for h in ln["post"]["hist"] if h["gens"]]) > 1


INV_C02 = ["Inv_C02_RecordSet", "Inv_C02_Digests", "Inv_C02_SingleFiles", "Inv_NoInternal"]
generic(
    "C02", "model_checking",
    quick=[
        dict(scope="big", mode="exhaustive", maxops=3, limit=150, mc=False),
        dict(scope="sf2", mode="exhaustive", maxops=3, limit=400, mc=False),
        dict(scope="neg", mode="simulate", num=30, depth=7, limit=300, mc=False),
        dict(scope="tree", mode="simulate", num=60, depth=8, limit=500, mc_maxgens=1, invariants=INV_C02),
        dict(scope="nest", mode="simulate", num=60, depth=8, limit=500, mc_maxgens=1, invariants=INV_C02, variants=[{"names": "plain"}, {"names": "mixed", "sfrev": True}, {"names": "nfd"}]),
        dict(scope="ign", mode="simulate", num=40, depth=7, limit=300, mc=False),
        dict(scope="deep", mode="simulate", num=30, depth=8, maxops=12, maxgens=30, limit=300, mc=False),
    ],
    thorough=[dict(scope="all", mode="simulate", num=20, depth=12, maxops=14, maxgens=60, limit=2500, mc=True, mc_simulate=100000, mc_timeout=150, mc_depth=16, mc_maxgens=60, invariants=INV_C02),
             
        dict(scope="deep", mode="simulate", num=300, depth=10, maxops=14, maxgens=40, limit=3000, mc=False),
        dict(scope="tree", mode="simulate", num=400, depth=10, mc_maxgens=2, invariants=INV_C02),
        dict(scope="nest", mode="simulate", num=400, depth=10, mc_maxgens=3, invariants=INV_C02),
        dict(scope="ign", mode="simulate", num=300, depth=8, mc_maxgens=2, invariants=INV_C02),
        dict(scope="fmt3n", mode="simulate", num=300, depth=6, mc=False),
    ],
    pclauses=["P_C02_RecordSet", "P_C02_Digests", "P_C02_SingleFiles", "P_C02_Paths"],
    antecedent=lambda ln, v: is_create(ln) and ln["exit"] in (0, 10, 11) and wrote_something(ln),
    antecedent_text="a create / create -sf that wrote at least one generation (exit 0, 10 or 11)",
)

INV_C03 = ["Inv_C03_NoFalseAlarm", "Inv_C03_Altered", "Inv_C03_Removed", "Inv_C03_Added", "Inv_C03_Quiet", "Inv_NoInternal"]
generic(
    "C03", "model_checking",
    quick=[
        dict(scope="tree", mode="simulate", num=60, depth=8, limit=600, mc_maxgens=1, invariants=INV_C03, variants=[{"names": "plain"}, {"names": "mixed", "touch": True}]),
        dict(scope="nest", mode="simulate", num=60, depth=8, limit=400, mc_maxgens=1, invariants=INV_C03),
        dict(scope="ign", mode="simulate", num=40, depth=7, limit=300, mc=False),
        dict(scope="ignsf", mode="simulate", num=40, depth=8, limit=300, mc=False),
        dict(scope="big", mode="exhaustive", maxops=4, limit=200, mc=False),
        dict(scope="deep", mode="simulate", num=30, depth=8, maxops=12, maxgens=30, limit=400, mc=False),
        dict(scope="tiny", mode="exhaustive", maxops=4, limit=800, mc_maxgens=2, invariants=INV_C03),
    ],
    thorough=[dict(scope="all", mode="simulate", num=20, depth=12, maxops=14, maxgens=60, limit=2500, mc=True, mc_simulate=100000, mc_timeout=150, mc_depth=16, mc_maxgens=60, invariants=INV_C03),
             
        dict(scope="deep", mode="simulate", num=300, depth=10, maxops=14, maxgens=40, limit=4000, mc=False),
        dict(scope="tiny", mode="exhaustive", maxops=5, mc_maxgens=2, invariants=INV_C03),
        dict(scope="tree", mode="simulate", num=500, depth=10, mc_maxgens=2, invariants=INV_C03, variants=[{"names": "plain"}, {"names": "mixed", "touch": True}, {"names": "xml"}]),
        dict(scope="nest", mode="simulate", num=400, depth=10, mc_maxgens=3, invariants=INV_C03),
        dict(scope="ign", mode="simulate", num=300, depth=8, mc_maxgens=2, invariants=INV_C03),
    ],
    pclauses=["P_C03_NoFalseAlarm", "P_C03_Altered", "P_C03_Removed", "P_C03_Added", "P_C03_Quiet"],
    antecedent=lambda ln, v: ln["op"]["op"] in ("create", "verify", "diff") and has_history(ln) and (
        v.get("A_unchanged") or ln["exit"] in (10, 11, 21)),
    antecedent_text="create / verify / diff on an existing history where the tree is unchanged since sealed, or where a discrepancy was reported",
)

INV_C08 = ["Inv_C08_Partition", "Inv_C08_ChildRoot", "Inv_C08_Refs", "Inv_C08_WhoWrites", "Inv_NoInternal"]
generic(
    "C08", "model_checking",
    quick=[
        dict(scope="nest", mode="simulate", num=120, depth=9, limit=700, mc_maxgens=2, invariants=INV_C08),
        dict(scope="deep", mode="simulate", num=30, depth=8, maxops=12, maxgens=30, limit=400, mc=False),
        dict(scope="nest2f", mode="simulate", num=30, depth=8, limit=400, mc_maxgens=2, invariants=INV_C08),
    ],
    thorough=[dict(scope="all", mode="simulate", num=20, depth=12, maxops=14, maxgens=60, limit=2500, mc=True, mc_simulate=100000, mc_timeout=150, mc_depth=16, mc_maxgens=60, invariants=INV_C08),
             
        dict(scope="nest", mode="simulate", num=800, depth=11, mc_maxgens=3, invariants=INV_C08),
        dict(scope="deep", mode="simulate", num=300, depth=10, maxops=14, maxgens=40, limit=5000, mc_maxgens=12, invariants=INV_C08),
        dict(scope="fmt3n", mode="simulate", num=300, depth=6, mc_maxgens=3, invariants=INV_C08),
        dict(scope="nest2f", mode="simulate", num=400, depth=10, limit=4000, mc_maxgens=3, invariants=INV_C08),
        dict(scope="ign", mode="simulate", num=300, depth=8, mc=False),
    ],
    pclauses=["P_C08_Partition", "P_C08_ChildRoot", "P_C08_Refs", "P_C08_WhoWrites", "P_C08_RefBytes", "P_C08_Order", "P_C08_ChildRootBytes", "P_C07_Recorded"],
    antecedent=lambda ln, v: is_create(ln) and nested(ln) and wrote_something(ln),
    antecedent_text="a create / create -sf that wrote a generation while at least two (nested) histories exist",
)

INV_C12 = ["Inv_C12_Excluded", "Inv_C12_Accumulate", "Inv_C03_Quiet", "Inv_C02_RecordSet"]
generic(
    "C12", "model_checking",
    quick=[
        dict(scope="ign", mode="simulate", num=120, depth=8, limit=800, mc_maxgens=1, invariants=INV_C12, variants=[{"names": "plain"}, {"names": "mixed", "augment": True}, {"names": "space", "augment": True}]),
        dict(scope="igndh", mode="simulate", num=80, depth=8, limit=900, mc_maxgens=1, invariants=INV_C12 + ["Inv_C09_Identical"], variants=[{"names": "plain", "augment": True}, {"names": "space"}]),
        dict(scope="ignsf", mode="simulate", num=60, depth=8, limit=600, mc_maxgens=2, invariants=INV_C12),
        dict(scope="neg", mode="simulate", num=40, depth=7, limit=500, mc_maxgens=1, invariants=INV_C12 + ["Inv_C03_NoFalseAlarm", "Inv_C09_Identical"]),
    ],
    thorough=[dict(scope="all", mode="simulate", num=20, depth=12, maxops=14, maxgens=60, limit=2500, mc=True, mc_simulate=100000, mc_timeout=150, mc_depth=16, mc_maxgens=60, invariants=INV_C12),
             
        dict(scope="ign", mode="simulate", num=1200, depth=10, mc_maxgens=2, invariants=INV_C12, variants=[{"names": "plain"}, {"names": "mixed", "augment": True}]),
        dict(scope="igndh", mode="simulate", num=600, depth=10, limit=5000, mc_maxgens=2, invariants=INV_C12 + ["Inv_C09_Identical"], variants=[{"names": "plain", "augment": True}, {"names": "space"}]),
        dict(scope="ignsf", mode="simulate", num=600, depth=10, limit=6000, mc_maxgens=3, invariants=INV_C12),
        dict(scope="neg", mode="simulate", num=400, depth=8, limit=3000, mc_maxgens=3, invariants=INV_C12 + ["Inv_C03_NoFalseAlarm", "Inv_C09_Identical"]),
    ],
    pclauses=["P_C12_Excluded", "P_C12_Accumulate", "P_C03_Quiet", "P_C07_Recorded", "P_C02_RecordSet", "P_C09_Identical", "P_C03_NoFalseAlarm"],
    antecedent=lambda ln, v: bool(v.get("A_ign")),
    antecedent_text="a command whose effective ignore patterns match at least one existing path",
)


INV_C14 = ["Inv_C14_Frame", "Inv_C14_Scope", "Inv_C06_AppendOnly", "Inv_NoInternal"]
generic(
    "C14", "model_checking",
    quick=[
        dict(scope="cmds", mode="simulate", num=60, depth=10, limit=600, mc_maxgens=1, invariants=INV_C14, variants=[{"names": "plain"}, {"names": "mixed", "flatrel": True}, {"names": "xml", "spelling": "rel"}, {"names": "space", "flatdeep": True}]),
        dict(scope="nest", mode="simulate", num=60, depth=8, limit=600, mc=False,
             variants=[{"names": "prefix"}, {"names": "plain", "sfspell": "dotseg"}, {"names": "mixed", "spelling": "slash", "sfspell": "rel"}]),
        # failing runs: a comment XML cannot represent
        dict(scope="nest", mode="simulate", num=40, depth=8, limit=300, mc=False, seed_offset=5, tag="x", variants=[{"names": "plain", "ctrl": True}, {"names": "unicode", "ctrl": True}]),
    ],
    thorough=[dict(scope="all", mode="simulate", num=20, depth=12, maxops=14, maxgens=60, limit=2500, mc=True, mc_simulate=100000, mc_timeout=150, mc_depth=16, mc_maxgens=60, invariants=INV_C14),
             
        dict(scope="cmds", mode="simulate", num=600, depth=12, mc_maxgens=2, invariants=INV_C14),
        dict(scope="nest", mode="simulate", num=300, depth=10, mc=False),
        dict(scope="ign", mode="simulate", num=200, depth=8, mc=False),
        dict(scope="ren", mode="simulate", num=100, depth=9, mc=False),
    ],
    pclauses=["P_C14_Frame", "P_C14_Scope", "P_C14_DiskSame"],
    antecedent=lambda ln, v: True,
    antecedent_text="every executed command (read-only commands must leave an empty delta and issue no mutating call; create may add only manifests / chain files / ascmhl folders of the histories it writes)",
)

INV_C18 = ["Inv_C18_Summary", "Inv_C18_VerifyPL", "Inv_C14_Frame"]
generic(
    "C18", "model_checking",
    quick=[dict(scope="flat", mode="simulate", num=120, depth=11, limit=900, mc_maxgens=1, invariants=INV_C18, variants=[{"names": "plain"}, {"names": "mixed", "flatrel": True}, {"names": "unicode"}]),
           dict(scope="flatx", mode="exhaustive", maxops=5, maxgens=3, select="flatten_two_gens", mc_maxgens=3, invariants=INV_C18),
           dict(scope="flatf", mode="exhaustive", maxops=6, maxgens=3, select="failed_then_format", limit=400, mc=False, tag="ff"),
           dict(scope="flatign", mode="simulate", num=60, depth=6, limit=400, mc_maxgens=2, invariants=INV_C18)],
    thorough=[dict(scope="flat", mode="simulate", num=1500, depth=13, mc_maxgens=3, invariants=INV_C18)],
    pclauses=["P_C18_Summary", "P_C18_VerifyPL", "P_C18_Valid", "P_C14_Frame"],
    antecedent=lambda ln, v: ln["op"]["op"] in ("flatten", "verifypl") and ln["exit"] != 30 and has_history(ln),
    antecedent_text="a flatten of an existing history, or a verify -pl against the packing list it wrote",
)

INV_C19 = ["Inv_C19_Info", "Inv_C19_InfoSF"]
generic(
    "C19", "model_checking",
    quick=[dict(scope="inf", mode="simulate", num=120, depth=10, limit=900, mc_maxgens=2, invariants=INV_C19),
           dict(scope="inf", mode="simulate", num=40, depth=9, limit=300, mc=False, seed_offset=3, tag="l",
                variants=[{"names": "plain", "location": "link_parent"}, {"names": "mixed", "location": "link_parent", "sfspell": "dotseg"},
                          {"names": "plain", "clockstep": -86400}])],      # the clock is set back a day between runs: later generations carry earlier dates
    thorough=[dict(scope="inf", mode="simulate", num=1500, depth=12, mc_maxgens=3, invariants=INV_C19),
              dict(scope="cmds", mode="simulate", num=300, depth=10, mc=False)],
    pclauses=["P_C19_Info", "P_C19_Dates", "P_C19_InfoSF"],
    antecedent=lambda ln, v: ln["op"]["op"] in ("info", "infosf") and has_history(ln),
    antecedent_text="info / info -sf while some history exists",
)


INV_C09 = ["Inv_C09_Identical", "Inv_C09_Detects", "Inv_NoInternal", "Inv_C14_Frame"]
generic(
    "C09", "model_checking",
    quick=[dict(scope="dh", mode="simulate", num=80, depth=9, limit=1200, mc_maxgens=1, invariants=INV_C09),
           dict(scope="dhopt", mode="simulate", num=40, depth=9, limit=700, mc_maxgens=2, mc_simulate=100000, mc_timeout=45, mc_depth=12, invariants=INV_C09)],
    thorough=[dict(scope="all", mode="simulate", num=20, depth=12, maxops=14, maxgens=60, limit=2500, mc=True, mc_simulate=100000, mc_timeout=150, mc_depth=16, mc_maxgens=60, invariants=INV_C09),
             dict(scope="dh", mode="simulate", num=1500, depth=11, mc_maxgens=2, invariants=INV_C09),
             dict(scope="dhopt", mode="simulate", num=400, depth=10, limit=8000, mc_maxgens=2, invariants=INV_C09),
              dict(scope="dh6", mode="simulate", num=300, depth=10, mc=False)],
    pclauses=["P_C09_Identical", "P_C09_Detects", "P_C09_NoInternal"],
    antecedent=lambda ln, v: ln["op"]["op"] == "verifydh" and bool(v.get("A_dh")),
    antecedent_text="verify -dh on a history that holds at least one generation with directory hashes",
)

generic(
    "C07", "model_checking",
    quick=[dict(scope="dh6", mode="simulate", num=60, depth=10, limit=900, mc=False),
           dict(scope="dhopt", mode="simulate", num=20, depth=8, limit=400, mc=False),
           dict(scope="nest2f", mode="simulate", num=30, depth=8, limit=300, mc=False)],
    thorough=[dict(scope="dh6", mode="simulate", num=1200, depth=12, mc=False),
              dict(scope="dhopt", mode="simulate", num=200, depth=9, limit=4000, mc=False),
              dict(scope="ign", mode="simulate", num=200, depth=8, mc=False),
              dict(scope="nest", mode="simulate", num=200, depth=9, mc=False)],
    pclauses=["P_C07_Recorded", "P_C07_Relations", "P_C07_Printed"],
    antecedent=lambda ln, v: (ln["op"]["op"] == "create" and not ln["op"].get("n") and wrote_something(ln)) or (ln["op"]["op"] == "verifydh" and ln["op"].get("co")),
    antecedent_text="a create that recorded directory hashes, or a verify -dh -co that printed them",
    models_quick=["MC_DirHashSmall"], models_thorough=["MC_DirHash"],
    extra_assumptions=["an empty file and an empty directory hash alike by definition (both are the empty input); the signatures identify them"],
)


INV_C17 = ["Inv_C17_Renamed", "Inv_C17_Altered", "Inv_C03_NoFalseAlarm", "Inv_C03_Removed", "Inv_C03_Added", "Inv_NoInternal"]
generic(
    "C17", "model_checking",
    quick=[dict(scope="chain2", mode="exhaustive", maxops=6, limit=1200, mc_maxgens=3, invariants=INV_C17),
           dict(scope="chain3", mode="exhaustive", maxops=8, maxgens=5, select="rename_chain3", mc=False),
           dict(scope="ren", mode="exhaustive", maxops=4, maxgens=2, select="two_renames", mc=False, tag="r"),
           dict(scope="rennest", mode="exhaustive", maxops=6, maxgens=5, select="rename_and_nested", mc_maxgens=5, invariants=INV_C17),
           dict(scope="chain", mode="simulate", num=60, depth=11, limit=500, mc_maxgens=2, invariants=INV_C17),
           dict(scope="ren", mode="simulate", num=60, depth=10, limit=500, mc_maxgens=1, invariants=INV_C17),
           # whole directories renamed / moved (Layer P only: Layer M does not match directories yet, see DESIGN 11.3)
           dict(scope="rendir", mode="simulate", num=150, depth=6, maxops=6, maxgens=4, limit=600, mc=False, tag="rd")],
    thorough=[dict(scope="rendir", mode="simulate", num=1500, depth=7, maxops=7, maxgens=5, limit=6000, mc=False, tag="rd"),
              dict(scope="chain2", mode="exhaustive", maxops=7, mc_maxgens=3, invariants=INV_C17),
              dict(scope="chain3", mode="exhaustive", maxops=9, maxgens=5, select="rename_chain3", limit=8000, mc_maxgens=5, invariants=INV_C17),
              dict(scope="chain", mode="simulate", num=1500, depth=13, mc_maxgens=3, invariants=INV_C17),
              dict(scope="ren", mode="simulate", num=1500, depth=12, mc_maxgens=2, invariants=INV_C17)],
    pclauses=["P_C17_Renamed", "P_C17_NoInternal", "P_C17_Altered", "P_C03_NoFalseAlarm", "P_C03_Removed", "P_C03_Added"],
    antecedent=lambda ln, v: bool(v.get("A_moves")) or bool(v.get("A_renames")),
    antecedent_text="a create -dr that faces at least one moved file, or any create / verify / diff on a history that already records renames",
    extra_assumptions=["contents pairwise distinct (the scopes' environment never creates duplicate contents); folder renames are generated in scope rendir and judged by Layer P only"],
)


@register("C13")
def c13(tier, seed):
    """location / spelling / listing-order independence: grouped executions judged by MhlEnv.tla; the mechanism model
    itself has no location or order argument, which is what the model runs establish for the core scopes."""
    import random
    from . import envcheck as E
    from . import validate

    out = Outcome("C13", tier, seed, "model_checking")
    plans = [("nest", 7, 120), ("ign", 6, 100), ("tree", 6, 80), ("sib2", 5, 40)] if tier == "quick" else [("nest", 9, 900), ("ign", 8, 700), ("tree", 8, 500), ("ren", 8, 200), ("sib2", 6, 200)]
    known = [k for k in load_known() if k["property"] == "C13" and k.get("status") == "open"]
    nontrivial = set()
    total = 0
    samples = []
    counts = collections.Counter()
    for scope, depth, limit in plans:
        if scope == "nest":
            r = C.model_check("nest", invariants=["Inv_C08_Refs", "Inv_C02_RecordSet", "Inv_C12_Excluded"], maxgens=2 if tier == "quick" else 3)
            out.add_model(r, "MhlHistoryMC/nest")
        behs, er = C.export(scope, mode="simulate", num=30 if tier == "quick" else 200, depth=depth, seed=seed, maxops=depth, maxgens=6)
        random.Random(seed * 31 + 7).shuffle(behs)
        behs = behs[:limit]
        specs = E.group_specs(scope, behs, seed=seed)
        glines, errs, lines = E.run_groups(specs)
        for e in errs[:3]:
            out.machinery.append("harness error: %s" % e.get("harness_error", "")[-1200:])
        verdicts, diags = validate.validate(glines, [], trace_module="MhlEnv", tag="C13-" + scope)
        for d in diags[:3]:
            out.machinery.append("trace validation stopped early: %s" % d["tail"][-1200:])
        gspec = {}
        for s in specs:
            gspec.setdefault(s["group"], s)
        out.coverage["traces_validated_against_impl"] += len(specs)
        for g in glines:
            v = verdicts.get((g["tid"], g["i"]))
            if not v:
                continue
            total += 1
            if v.get("A_wrote"):
                nontrivial.add(C.beh_key(gspec[g["tid"]]["ops"]))
            for c in ("P_C13_SameBytes", "P_C13_SameExit", "P_C13_SameOut", "P_C13_Copy"):
                counts[c] += 1
                if v.get(c) is False:
                    spec = dict(gspec[g["tid"]])
                    spec["variants"] = E.VARIANTS
                    out.violation(c, "step %d op=%s observations=%s" % (g["i"], json.dumps(g["op"], sort_keys=True),
                                  json.dumps([(x["env"]["location"], x["exit"], len(x["hbytes"]), [c_["exit"] for c_ in x["copies"]]) for x in g["variants"]])), spec, g["i"])
        if len(samples) < 3 and glines:
            g = glines[0]
            samples.append({"group": g["tid"], "ops": gspec[g["tid"]]["ops"], "environments": E.VARIANTS, "exits_step0": [x["exit"] for x in g["variants"]]})
    out.coverage["evaluations"] = total
    out.coverage["distinct_nontrivial"] = len(nontrivial)
    out.coverage["samples"] = samples
    out.coverage["clause_evaluations"] = dict(counts)
    out.coverage["rule"] = (
        "each behaviour exported by TLC (scopes nest / ign / tree) is executed under 6 environments (plain, deep, below a folder named "
        "'ascmhl', below '.DS_Store', below a folder matching a user pattern, below a folder named like an ignored file; absolute / "
        "trailing-slash / relative / '.' / './x' spelling of the root; 5 seeded permutations of os.listdir / os.scandir) with identical "
        "names, contents, mtimes, clock and host name; one evaluation = one step of one behaviour judged over its 6 observations by "
        "MhlEnv.tla (byte-identical ascmhl folders, equal exit code and reported paths; after every create that exits 0 the tree is "
        "copied to three other locations and verified there). Non-trivial = the step wrote a generation."
    )
    out.assumptions = COMMON_ASSUMPTIONS + ["mtimes of all files and directories are pinned before each command (directory mtimes are written into manifests)"]
    return out


@register("C15")
def c15(tier, seed):
    """crash points of create: model (MhlCommit) + every crash point materialised on the real code"""
    from multiprocessing import Pool
    from . import commitcheck as CC
    from . import validate

    out = Outcome("C15", tier, seed, "fault_enumeration")
    r = run_static_model(out, "MC_Commit")
    # negative control: the in-place protocol must violate C15 in the model (guards against a vacuous model)
    import shutil
    from . import tlc
    wd = tlc.workdir("sm-inplace")
    try:
        tlc.prepare(wd)
        rn = tlc.run_tlc(wd, "MC_Commit", "MC_CommitInPlace.cfg", workers=4)
        out.coverage["negative_control_in_place_protocol_violates"] = rn.violation or "NONE"
        if not rn.violation:
            out.machinery.append("negative control failed: the in-place write protocol satisfies C15 in the model")
    finally:
        shutil.rmtree(wd, ignore_errors=True)
    priors = [0, 1] if tier == "quick" else [0, 1, 2, 3]
    namesets = ["plain"] if tier == "quick" else ["plain", "xml", "unicode"]
    known = [k for k in load_known() if k["property"] == "C15" and k.get("status") == "open"]
    lines, cases = [], []
    for layout in CC.LAYOUTS:
        for prior in priors:
            for names in namesets:
                for buffered in (False, True):
                    ref = CC.reference_run(layout, prior, names, buffered=buffered)
                    lines.append({"tid": "proto-%s-%d-%s-%s" % (layout, prior, names, "buf" if buffered else "raw"), "i": 0, "kind": "protocol", "events": ref["events"],
                                  "order": ref["order"], "hists": ref["hists"], "atomic": ref["atomic"], "exit": ref["exit"], "buffered": buffered})
                    for k in range(ref["n"]):
                        kind = ref["events"][k]["k"]
                        for mode in ("none", "partial", "full"):
                            if buffered and (kind == "write" and mode != "none" or kind not in ("write", "flush", "close") and mode == "partial"):
                                continue      # a buffered write call changes nothing on disk: one crash variant is enough
                            if not buffered and mode == "partial" and kind != "write":
                                continue
                            cases.append((layout, prior, names, k, mode, ref))
    with Pool(16) as pool:
        crashed = pool.map(CC.crash_case, cases, chunksize=8)
    lines += crashed
    verdicts, diags = validate.validate(lines, [], trace_module="MhlCommitTrace", tag="C15")
    for d in diags[:3]:
        out.machinery.append("trace validation stopped early: %s" % d["tail"][-1500:])
    from . import signatures
    pclauses = ["P_C15_OldIntact", "P_C15_ChainLists", "P_C15_AllOrNothing", "P_C15_Listed", "P_C15_Loadable", "P_C08_ChildFirst"]
    distinct = set()
    drift = collections.Counter()
    counts = collections.Counter()
    for ln in lines:
        v = verdicts.get((ln["tid"], ln["i"]))
        if not v:
            continue
        if ln["kind"] == "crash":
            distinct.add((ln["layout"], ln["prior"], ln["k"], ln["mode"], ln.get("buffered")))
        for c in pclauses:
            if c in v:
                counts[c] += 1
                if v[c] is False:
                    fid = signatures.match(known, "C15", c, ln, v)
                    if fid:
                        n, what = out.known.get(fid["id"], (0, fid["what"]))
                        out.known[fid["id"]] = (n + 1, what)
                    else:
                        desc = "layout=%s prior=%s crash at call %s (%s) mode=%s -> next info/verify/create exit %s" % (
                            ln.get("layout"), ln.get("prior"), ln.get("k"), json.dumps(ln["events"][ln["k"]]) if ln["kind"] == "crash" else "-", ln.get("mode"), json.dumps(ln.get("after")))
                        out.violation(c, desc, {"kind": "crash", "layout": ln.get("layout"), "prior": ln.get("prior"), "names": ln["tid"].rsplit("-", 1)[-1], "k": ln.get("k"), "mode": ln.get("mode")}, ln.get("k"))
        for c, val in v.items():
            if c.startswith("M_") and val is False:
                drift[c] += 1
    out.coverage["evaluations"] = len(verdicts)
    out.coverage["traces_validated_against_impl"] = len(lines)
    out.coverage["distinct_nontrivial"] = len(distinct)
    out.coverage["clause_evaluations"] = dict(counts)
    out.coverage["drift"] = dict(drift)
    out.coverage["samples"] = [{k: v for k, v in ln.items() if k in ("tid", "layout", "prior", "k", "mode", "after", "order")} for ln in crashed[:3]] + [
        {"protocol_events_flat_prior0": [(e["k"], e["h"], e["f"]) for e in lines[0]["events"]]}]
    out.coverage["rule"] = (
        "fault = kill of `create ROOT -h md5` at its k-th file-system call (mkdir / open-for-write / each write / close / replace as issued by "
        "the manifest and chain writers, enumerated from an uninterrupted reference run), applied not at all, partially (writes) or fully, "
        "for every k, on histories {flat, root+child, root+child+grandchild} x prior generations, once with every write going straight to the file "
        "(each write call a crash point) and once behind an io.BufferedWriter-like buffer (data reaches the file at flush / close only); after each crash the files are read "
        "independently and info, verify, create are run; MhlCommitTrace folds the specification's Apply over the recorded call prefix to "
        "predict the abstract file state and loader outcome (M) and evaluates the C15 predicates on the observed state (P). "
        "distinct_nontrivial = distinct (layout, prior, call index, mode)."
    )
    out.coverage["exhaustive"] = True
    out.assumptions = [
        "process kill, not power loss: completed writes are not reordered or lost; POSIX rename atomicity on the sandbox tmpfs",
        "every write is a crash point (the harness writes unbuffered, which yields a superset of the states a buffered writer can leave)",
        "after a crash on a history without any committed generation, the dedicated refusals 30/32 count as loading normally; for histories with >= 1 generation every next command must exit 0",
    ] + COMMON_ASSUMPTIONS[1:3]
    return out


@register("C05")
def c05(tier, seed):
    """tampering: fault states enumerated by TLC from MhlTamper, materialised on real histories, every reading command run"""
    import shutil
    from multiprocessing import Pool
    from . import commitcheck as CC
    from . import tlc, validate

    out = Outcome("C05", tier, seed, "fault_enumeration")
    wd = tlc.workdir("tamper")
    try:
        tlc.prepare(wd)
        r = tlc.run_tlc(wd, "MC_Tamper", "MC_Tamper.cfg", workers=4)
        out.add_model(r, "MC_Tamper")
        states = list(tlc.printed(r.out, "BEH"))
    finally:
        shutil.rmtree(wd, ignore_errors=True)
    uniq = {json.dumps(s, sort_keys=True): s for s in states}
    states = [uniq[k] for k in sorted(uniq)]
    out.coverage["fault_states_from_model"] = len(states)
    cases = []
    for k, s in enumerate(states):
        has_edit = any(m == "edited" for h in s["st"] for m in h["mans"])
        if tier == "quick":
            edits = [CC.EDITS[(k + seed) % len(CC.EDITS)]]
        else:
            edits = CC.EDITS if has_edit else ["flip_first"]
        names = ["plain", "xml", "unicode"][(k + seed) % 3]
        for e in edits:
            cases.append((k, s, e, names, seed))
    with Pool(16) as pool:
        res = pool.map(CC.tamper_case, cases, chunksize=4)
    lines = [ln for ls in res for ln in ls]
    verdicts, diags = validate.validate(lines, [], trace_module="MhlTamperTrace", tag="C05")
    for d in diags[:3]:
        out.machinery.append("trace validation stopped early: %s" % d["tail"][-1500:])
    counts = collections.Counter()
    distinct = set()
    for ln in lines:
        v = verdicts.get((ln["tid"], ln["i"]))
        if not v:
            continue
        if v.get("A_faulty"):
            distinct.add((json.dumps(ln["st"], sort_keys=True), ln["cmd"], tuple(ln["R"]), ln["edit"]))
        for c in ("P_C05_Refuse", "P_C05_NoWrite"):
            counts[c] += 1
            if v.get(c) is False:
                out.violation(c, "cmd=%s root=%s edit=%s exit=%s expected=%s exc=%s faults=%s delta=%s" % (
                    ln["cmd"], ln["R"], ln["edit"], ln["exit"], v.get("expected"), ln["exc"],
                    json.dumps([h for h in ln["st"] if h["chain"] != "ok" or any(m != "ok" for m in h["mans"])]), json.dumps(ln["delta"][:3])),
                    {"kind": "tamper", "state": ln["st"], "edit": ln["edit"], "cmd": ln["cmd"], "R": ln["R"]}, ln["i"])
    # a manifest longer than the hasher's read chunk, edited behind the first MiB
    with Pool(3) as pool:
        big = pool.map(CC.big_manifest_case, [(4200, c) for c in (("verify", "create", "info") if tier == "thorough" else ("verify", "create"))])
    for b in big:
        counts["P_C05_Refuse"] += 1
        if b["size"] <= 2 ** 20 or b["pos"] <= 2 ** 20 or b["create0"] != 0:
            out.machinery.append("big manifest case not built as intended: %s" % json.dumps(b))
        elif b["exit"] != 31 or b["delta"]:
            out.violation("P_C05_Refuse", "manifest of %d bytes, byte %d changed: %s exits %s (expected 31) delta=%s" % (b["size"], b["pos"], b["cmd"], b["exit"], b["delta"]),
                          {"kind": "bigman", "cmd": b["cmd"]}, 0)
    out.coverage["big_manifest_cases"] = big
    out.coverage["evaluations"] = len(verdicts)
    out.coverage["traces_validated_against_impl"] = len(cases)
    out.coverage["distinct_nontrivial"] = len(distinct)
    out.coverage["clause_evaluations"] = dict(counts)
    out.coverage["samples"] = [{k: ln[k] for k in ("tid", "cmd", "R", "edit", "exit", "st")} for ln in lines[:2]]
    out.coverage["rule"] = (
        "fault states (<= 2 faults: manifest edited / manifest removed / chain removed, in any generation of any of the histories root, d, d/e, d2 "
        "with 2/3/4/3 generations) are enumerated by TLC from MhlTamper and materialised on a real nested history; 'edited' is realised by one of "
        "9 byte edits (bit flips first / last / middle / random, insertion, deletion, truncation to half / zero, appended newline; all of them in "
        "the thorough tier); on each tampered tree 20 history-reading commands are run (create, create -sf, verify, verify -sf, verify -dh, diff, "
        "info, info -sf with and without root, flatten; at roots '.' and d, info -sf also at d/e and d2). MhlTamperTrace computes the expected "
        "refusal with the specification's loader order and requires exit = expected and an empty file-system delta and call list. "
        "distinct_nontrivial = distinct (fault state, command, root, edit) with a fault in the command's scope."
    )
    out.coverage["exhaustive"] = tier == "thorough"
    out.assumptions = ["a fault is a change of a *listed* manifest's bytes, its removal, or removal of a chain file; edits of the chain file's own content are outside the statement", "SHA-512 / C4 collision freedom"] + COMMON_ASSUMPTIONS[1:3]
    return out


def xml_campaign(out, pid, tier, seed, pclauses):
    """document shapes enumerated by TLC from MhlXml, driven through the real writer and both readers"""
    import random
    import shutil
    from multiprocessing import Pool
    from . import tlc, validate, xmlcheck as X

    run_static_model(out, "MC_Xml", cfg="MC_XmlSmall.cfg" if tier == "quick" else "MC_Xml.cfg")
    wd = tlc.workdir("xmlexp")
    try:
        tlc.prepare(wd)
        cfg = "MC_Xml_export.cfg"
        if tier == "quick":
            with open(os.path.join(wd, "MC_Xml_export_small.cfg"), "w") as fh:
                fh.write(open(os.path.join(wd, cfg)).read().replace("MaxRecs = 2", "MaxRecs = 1"))
            cfg = "MC_Xml_export_small.cfg"
        r = tlc.run_tlc(wd, "MC_Xml", cfg, workers=8)
        docs = list(tlc.printed(r.out, "BEH"))
    finally:
        shutil.rmtree(wd, ignore_errors=True)
    out.coverage["document_shapes_from_model"] = len(docs)
    rnd = random.Random(seed * 101 + 3)
    rnd.shuffle(docs)
    docs = docs[: (700 if tier == "quick" else 12000)]
    # negative controls for the schema automaton: shapes the writer can emit but the schema rejects
    neg = [{"authors": 0, "location": False, "comment": False, "root": [], "npats": 1, "nrefs": 0, "negative": True,
            "recs": [{"kind": "file", "fmts": [f, f], "prev": False}]} for f in ("md5", "c4", "xxh64")]
    cases = [(k, d, seed) for k, d in enumerate(docs + neg)]
    with Pool(16) as pool:
        lines = pool.map(X.run_case, cases, chunksize=16)
    verdicts, diags = validate.validate(lines, [], trace_module="MhlXmlTrace", tag=pid)
    for d in diags[:3]:
        out.machinery.append("trace validation stopped early: %s" % d["tail"][-1500:])
    counts, drift, distinct = collections.Counter(), collections.Counter(), set()
    known = [k_ for k_ in load_known() if k_["property"] == pid and k_.get("status") == "open"]
    for ln in lines:
        v = verdicts.get((ln["tid"], ln["i"]))
        if not v:
            continue
        negative = ln["doc"].get("negative")
        for c, val in v.items():
            if c.startswith("M_") and val is False:
                drift[c] += 1
        if negative:
            if v.get("M_valid") is False:
                out.machinery.append("schema automaton and lxml disagree on a negative control: %s" % json.dumps(ln["doc"]))
            continue
        distinct.add(json.dumps(ln["doc"], sort_keys=True))
        for c in pclauses:
            counts[c] += 1
            if v.get(c) is False:
                fid = signatures.match(known, pid, c, ln, v)
                if fid:
                    n_, what = out.known.get(fid["id"], (0, fid["what"]))
                    out.known[fid["id"]] = (n_ + 1, what)
                    continue
                out.violation(c, "doc=%s tool=%s indep=%s chain=%s xsd=%s exc=%s leftover=%s" % (json.dumps(ln["doc"]), ln.get("tool_bad"), ln.get("indep_bad"), ln.get("chain_bad"), ln.get("xsd_why"), ln.get("exc"), ln.get("leftover")),
                              {"kind": "xml", "doc": ln["doc"], "k": int(ln["tid"].split("-")[1]), "seed": seed}, 0)
    out.coverage["evaluations"] += len(verdicts)
    out.coverage["traces_validated_against_impl"] += len(lines)
    out.coverage["distinct_nontrivial"] += len(distinct)
    out.coverage["samples"] += [{"doc": ln["doc"], "xsd_ok": ln["xsd_ok"]} for ln in lines[:2]]
    out.coverage.setdefault("clause_evaluations", {}).update(dict(counts))
    out.coverage.setdefault("drift", {}).update(dict(drift))


XML_RULE = (
    " Document campaign: every shape (authors 0..2, location / comment present or not, root hash format sequence, 1..2 patterns, 0..2 "
    "records each file or directory with a format sequence out of 7 incl. all six formats, previous path or not, 0..2 references) is "
    "enumerated by TLC from MhlXml.tla, where the emitted element tree is checked against the transcribed content models of ASCMHL.xsd / "
    "ASCMHLDirectory.xsd and read back; a seeded sample of the shapes is concretised with Unicode / XML-special / emoji text, sizes 0 .. 2^40, "
    "all actions, written by the real writers and read by the tool's reader and an independent ElementTree reader; lxml's verdict must equal "
    "the automaton's. distinct_nontrivial counts distinct shapes driven through the code plus distinct behaviours of the history campaigns."
)


@register("C10")
def c10(tier, seed):
    out = Outcome("C10", tier, seed, "model_checking")
    xml_campaign(out, "C10", tier, seed, ["P_C10_ToolReader", "P_C10_IndependentReader", "P_C10_Chain", "P_C10_Shape"])
    plans = [dict(scope="nest", mode="simulate", num=40, depth=8, limit=300, mc=False, variants=[{"names": "xml", "augment": True}, {"names": "unicode", "augment": True}, {"names": "space"}]),
             dict(scope="ren", mode="simulate", num=40, depth=8, limit=200, mc=False, variants=[{"names": "xml"}, {"names": "unicode"}])]
    if tier == "thorough":
        plans = [dict(p, num=400, limit=3000) for p in plans] + [dict(scope="dh6", mode="simulate", num=200, depth=9, limit=1500, mc=False, variants=[{"names": "mixed", "augment": True}])]
    history_campaign(out, "C10", plans, pclauses=["P_C10_Reread"], antecedent=lambda ln, v: is_create(ln) and wrote_something(ln), seed=seed)
    out.coverage["rule"] = HIST_RULE + XML_RULE
    out.assumptions = COMMON_ASSUMPTIONS + ["text fields are drawn from 5 alphabets (ASCII, Latin-1/CJK, XML-special, emoji / zero-width, leading-trailing blanks) without control characters; leading / trailing white space of path components is stripped by the generator"]
    return out


@register("C11")
def c11(tier, seed):
    out = Outcome("C11", tier, seed, "model_checking")
    xml_campaign(out, "C11", tier, seed, ["P_C11_Valid"])
    aug = [{"names": "xml", "augment": True}, {"names": "plain", "augment": True}, {"names": "unicode", "augment": True}]
    plans = [dict(scope="nest", mode="simulate", num=40, depth=8, limit=300, mc=False, variants=aug),
             dict(scope="cmds", mode="simulate", num=40, depth=9, limit=250, mc=False, variants=aug),
             dict(scope="ign", mode="simulate", num=30, depth=7, limit=200, mc=False, variants=aug),
             dict(scope="chain", mode="simulate", num=30, depth=9, limit=200, mc=False, variants=aug)]
    if tier == "thorough":
        plans = [dict(p, num=400, limit=3000) for p in plans] + [dict(scope="ren", mode="simulate", num=200, depth=9, limit=1500, mc=False, variants=aug),
                                                                 dict(scope="dh6", mode="simulate", num=200, depth=9, limit=1500, mc=False, variants=aug)]
    history_campaign(out, "C11", plans, pclauses=["P_C11_Valid", "P_C18_Valid", "P_C11_ToolAgrees"], antecedent=lambda ln, v: wrote_something(ln), seed=seed)
    out.coverage["rule"] = HIST_RULE + XML_RULE + " History campaigns run with option variations: creator options, -ii pattern files, repeated -h, files named several times with -sf."
    out.assumptions = COMMON_ASSUMPTIONS + ["lxml's XSD validator is the oracle for validity; the transcribed automaton must agree with it on every case (incl. negative controls)"]
    return out


@register("C16")
def c16(tier, seed):
    """sizes and dates: MhlTime grid model + every grid cell run on the real code under TZ and a clock shim"""
    import random
    import shutil
    from multiprocessing import Pool
    from . import timecheck as T
    from . import tlc, validate

    out = Outcome("C16", tier, seed, "model_checking")
    run_static_model(out, "MC_Time")
    wd = tlc.workdir("time-neg")
    try:
        tlc.prepare(wd)
        rn = tlc.run_tlc(wd, "MC_Time", "MC_TimeAtNow.cfg", workers=2)
        out.coverage["negative_control_offset_at_now_violates"] = rn.violation or "NONE"
        if not rn.violation:
            out.machinery.append("negative control failed: the at_now formatter satisfies C16 in the model")
    finally:
        shutil.rmtree(wd, ignore_errors=True)
    rnd = random.Random(seed)
    cells, k = [], 0
    file_times = [T.T_WINTER, T.T_SUMMER]
    now_times = [T.N_WINTER, T.N_SUMMER]
    if tier == "thorough":
        # seeded instants, kept two days away from the switch months' edges by choosing Jan/Feb/Jun/Jul/Aug/Dec
        for _ in range(6):
            y, mo = rnd.choice([2019, 2020, 2022, 2024]), rnd.choice([1, 2, 6, 7, 8, 12])
            file_times.append(int(__import__("datetime").datetime(y, mo, rnd.randint(1, 28), rnd.randint(0, 23), rnd.randint(0, 59), rnd.randint(0, 59), tzinfo=__import__("datetime").timezone.utc).timestamp()))
    for z in T.ZONES:
        for tf in file_times:
            for tn in now_times:
                for s in (T.SIZES if tier == "thorough" else [T.SIZES[k % 3], T.SIZES[(k + 1) % 3]]):
                    cells.append((z, tf, tn, s, k))
                    k += 1
    # each cell sets the process-wide TZ: run cells in separate worker processes, one at a time per process
    with Pool(8) as pool:
        lines = pool.map(T.run_cell, cells, chunksize=4)
    verdicts, diags = validate.validate(lines, [], trace_module="MhlTimeTrace", tag="C16")
    for d in diags[:3]:
        out.machinery.append("trace validation stopped early: %s" % d["tail"][-1500:])
    counts, drift, nontrivial = collections.Counter(), collections.Counter(), set()
    for ln in lines:
        v = verdicts.get((ln["tid"], ln["i"]))
        if not v:
            continue
        if v.get("A_otherside"):
            nontrivial.add((ln["zone"], ln["t"], ln["now"], ln["size"]))
        for c, val in v.items():
            if c.startswith("M_") and val is False:
                drift[c] += 1
        for c in ("P_C16_Dates", "P_C16_Carried", "P_C16_Size", "P_C16_FileNameUTC"):
            counts[c] += 1
            if v.get(c) is False:
                out.violation(c, "zone=%s file_time=%s now=%s size=%s written_size=%s dates=%s exc=%s" % (ln["zone"], ln["t"], ln["now"], ln["size"], ln["size_written"], json.dumps([(d["what"], d["text"]) for d in ln["dates"]]), ln["exc"]),
                              {"kind": "time", "zone": ln["zone"], "t": ln["t"], "now": ln["now"], "size": ln["size"]}, 0)
    out.coverage["evaluations"] = len(verdicts)
    out.coverage["traces_validated_against_impl"] = len(lines)
    out.coverage["distinct_nontrivial"] = len(nontrivial)
    out.coverage["clause_evaluations"] = dict(counts)
    out.coverage["drift"] = dict(drift)
    out.coverage["samples"] = [{k_: ln[k_] for k_ in ("zone", "t", "now", "size", "dates")} for ln in lines[:2]]
    out.coverage["rule"] = (
        "grid = zones {UTC, Asia/Kolkata (+05:30), Etc/GMT+8 (-08:00), Europe/Berlin, America/New_York, Australia/Sydney, Pacific/Chatham} x "
        "file modification time {winter, summer (+ seeded instants in the thorough tier)} x current time {winter, summer} x size {0, 1, 2^20+1}; each "
        "cell runs the real create with TZ set, the file's mtime set by utime and the tool's clock injected by a harness-side shim; the written "
        "lastmodificationdate, hashdate, creationdate and manifest file name are parsed independently and compared with zoneinfo (instant at second "
        "precision, offset in force at that instant). Non-trivial = the offset at the file time differs from the offset at the current time."
    )
    out.coverage["exhaustive"] = True
    out.assumptions = ["zoneinfo (system tzdata) is the oracle for offsets; instants are kept days away from switch hours (the ambiguous / skipped local hour is not generated)",
                       "the clock shim replaces the datetime / time names of ascmhl.utils, ascmhl.hashlist, ascmhl.history and ascmhl.commands; code reading the clock through another path would see the real time"] + COMMON_ASSUMPTIONS[1:2]
    return out


@register("C01")
def c01(tier, seed):
    """digests: MhlHasher loop model + recorded read/update events of the real code + one-shot oracle + C4 codec values"""
    import itertools
    import random
    from multiprocessing import Pool
    from . import hashcheck as HC
    from . import validate

    out = Outcome("C01", tier, seed, "model_checking")
    run_static_model(out, "MhlHasher", cfg="MC_Hasher.cfg")
    rnd = random.Random(seed)
    lengths = HC.LENGTHS_QUICK if tier == "quick" else HC.LENGTHS_THOROUGH + [rnd.randint(1, 4 * HC.CHUNK) for _ in range(3)]
    subsets = [list(c) for r in range(1, 7) for c in itertools.combinations(HC.CLI_FORMATS, r)]   # all 63
    cases, k = [], 0
    for n in lengths:
        subs = subsets if tier == "thorough" else rnd.sample(subsets, 12) + [HC.CLI_FORMATS]
        for fm in subs:
            cases.append((k, n, fm, "aggregate", seed)); k += 1
        for f in HC.CLI_FORMATS + ["xxh32"]:
            for ep in ("hash_file", "class_hash_file", "hash_data", "stream"):
                cases.append((k, n, [f], ep, seed)); k += 1
        cases.append((k, n, ["sha1", "xxh3", "xxh32"], "multi_data", seed)); k += 1
        for f in HC.CLI_FORMATS:
            cases.append((k, n, [f], "cli_hash", seed)); k += 1
        for fm in (rnd.sample(subsets, 4) if tier == "quick" else rnd.sample(subsets, 16)):
            cases.append((k, n, fm, "create", seed)); k += 1
            cases.append((k, n, fm, "verify", seed)); k += 1
    with Pool(16) as pool:
        lines = pool.map(HC.run_case, cases, chunksize=8)
    verdicts, diags = validate.validate(lines, [], trace_module="MhlHasherTrace", tag="C01")
    for d in diags[:3]:
        out.machinery.append("trace validation stopped early: %s" % d["tail"][-1500:])
    counts, drift, nontrivial = collections.Counter(), collections.Counter(), set()
    for ln in lines:
        v = verdicts.get((ln["tid"], ln["i"]))
        if not v:
            continue
        nontrivial.add((ln["len"], tuple(ln["fmts"]), ln["ep"]))
        counts["P_C01_Digest"] += 1
        if v.get("M_loop") is False:
            drift["M_loop"] += 1
        if v.get("P_C01_Digest") is False:
            out.violation("P_C01_Digest", "len=%d formats=%s entry=%s %s got/want=%s" % (ln["len"], ln["fmts"], ln["ep"], ln["note"], ln["diff"]),
                          {"kind": "hash", "len": ln["len"], "fmts": ln["fmts"], "ep": ln["ep"], "k": int(ln["tid"].split("-")[1]), "seed": seed}, 0)
    # C4 codec on boundary values
    vals = HC.codec_values(seed, extra=200 if tier == "quick" else 5000)
    nbad = 0
    for v in vals:
        r = HC.codec_case(v)
        counts["P_C01_C4Codec"] += 1
        if not (r["enc_ok"] and r["dec_ok"] and r["len_ok"]):
            nbad += 1
            out.violation("P_C01_C4Codec", "value with %d bits -> %s (encode ok=%s, decode ok=%s, 90 chars=%s)" % (r["v_bits"], r["text"], r["enc_ok"], r["dec_ok"], r["len_ok"]),
                          {"kind": "codec", "value_hex": "%x" % v}, 0)
    out.coverage["evaluations"] = len(verdicts) + len(vals)
    out.coverage["traces_validated_against_impl"] = len(lines)
    out.coverage["distinct_nontrivial"] = len(nontrivial)
    out.coverage["clause_evaluations"] = dict(counts)
    out.coverage["drift"] = dict(drift)
    out.coverage["samples"] = [{k_: ln[k_] for k_ in ("len", "fmts", "ep", "events")} for ln in lines[:2]]
    out.coverage["rule"] = (
        "MhlHasher.tla: all file lengths 0..13 at chunk size 4 x all non-empty subsets of 3 hashers x 3 entry points, invariant 'every hasher was fed "
        "exactly the file' and termination; codec assumptions (fixed width, round trip, injective, order preserving) at radix 3 width 4, exhaustive. "
        "Real code: file lengths {0, 1, 2^20-1, 2^20, 2^20+1, 2*2^20+7, ...} x format subsets (all 63 in the thorough tier) x entry points {hash_file, "
        "Hasher.hash_file, AggregateHasher.hash_file, hash_data, multiple_format_hash_data, CLI hash, create, verify (+ verify after a one-byte flip "
        "must exit 11)}; every fd.read and every hasher update is recorded through harness-side wrappers and MhlHasherTrace checks the sequence is "
        "a behaviour of the loop; every digest string is compared with one-shot hashlib / xxhash over the same bytes and an independent base-58 "
        "codec. C4 codec: 0, 1, 57, 58, 58^k-1, 58^k, 58^k+1 (k < 88), 2^511, 2^512-1 and seeded random values injected as the SHA-512 value. "
        "distinct_nontrivial = distinct (length, format subset, entry point)."
    )
    out.assumptions = ["the arithmetic of MD5, SHA-1, SHA-512, XXH32/64/3 is trusted library code (hashlib, xxhash), anchored by published vectors in harness/oracle.py",
                       "TLC integers are 32 bit: the C4 codec is model checked at radix 3 / width 4; the 512-bit boundary values are differential tests, not model checking"] + COMMON_ASSUMPTIONS[1:2]
    return out


@register("C20")
def c20(tier, seed):
    """update check: MhlUpdater (all interleavings, liveness under fairness of main only) + every schedule forced on the real CLI groups"""
    from multiprocessing import Pool
    from . import updatecheck as UC
    from . import validate

    out = Outcome("C20", tier, seed, "model_checking")
    run_static_model(out, "MhlUpdater", cfg="MC_Updater.cfg")
    cases, k = [], 0
    for g in ("ascmhl", "ascmhl-debug"):
        for s in UC.SERVERS:
            for vv in (list(UC.VERSIONS) if s == "ok" else ["newer"]):
                for tm in (list(UC.TIMINGS) if s != "hang" else ["before"]):
                    for c in (("ok", "ok_v", "fail30", "fail11") if g == "ascmhl" else ("ok", "ok_v", "fail30")):
                        if tier == "quick" and c not in ("ok", "ok_v") and tm == "during_join" and s not in ("ok", "hang"):
                            continue
                        if tier == "quick" and c == "ok_v" and s == "ok" and vv not in ("newer", "equal", "garbage"):
                            continue
                        cases.append((k, g, s, vv, tm, c))
                        k += 1
    with Pool(16) as pool:
        lines = pool.map(UC.run_case, cases, chunksize=2)
        sub = pool.map(UC.subprocess_case, [(i, m) for i, m in enumerate(["hang", "hang", "0.0", "2.5"] if tier == "quick" else ["hang", "hang", "0.0", "0.0", "0.4", "0.4", "1.6", "2.5", "2.5"])])
    lines += sub
    verdicts, diags = validate.validate(lines, [], trace_module="MhlUpdaterTrace", tag="C20")
    for d in diags[:3]:
        out.machinery.append("trace validation stopped early: %s" % d["tail"][-1500:])
    counts, drift, nontrivial = collections.Counter(), collections.Counter(), set()
    for ln in lines:
        v = verdicts.get((ln["tid"], ln["i"]))
        if not v:
            continue
        nontrivial.add((ln["group"], ln["server"], ln["version"], ln["timing"], ln["cmd"]))
        if v.get("M_notice") is False:
            drift["M_notice"] += 1
        for c in ("P_C20_ExitCode", "P_C20_Stdout", "P_C20_NoticeOnlyIfNewer", "P_C20_BoundedDelay"):
            counts[c] += 1
            if v.get(c) is False:
                out.violation(c, "group=%s server=%s version=%s timing=%s command=%s -> exit %s (command alone %s) stdout_same=%s notice=%s elapsed=%sms %s" % (
                    ln["group"], ln["server"], ln["version"], ln["timing"], ln["cmd"], ln["exit"], ln["ref_exit"], ln["stdout_same"], ln["notice"], ln["elapsed_ms"], ln["exc"]),
                    {"kind": "update", "group": ln["group"], "server": ln["server"], "version": ln["version"], "timing": ln["timing"], "cmd": ln["cmd"]}, 0)
    out.coverage["evaluations"] = len(verdicts)
    out.coverage["traces_validated_against_impl"] = len(lines)
    out.coverage["distinct_nontrivial"] = len(nontrivial)
    out.coverage["clause_evaluations"] = dict(counts)
    out.coverage["drift"] = dict(drift)
    out.coverage["samples"] = [{k_: ln[k_] for k_ in ("group", "server", "version", "timing", "cmd", "exit", "notice", "elapsed_ms")} for ln in lines[:3]]
    out.coverage["rule"] = (
        "MhlUpdater.tla: checker thread x main thread, all interleavings for 8 server behaviours x 7 version classes x 3 command exit codes; invariants "
        "(exit code, stdout, notice only for a newer stable version, at most one timer period of delay) and termination under weak fairness of the main "
        "thread only (the checker may hang forever). Real code: requests.get is stubbed and each schedule is forced with sleeps (answer before the "
        "command ends, 0.35 s into the join, 1.7 s i.e. after the time-out, never) through both CLI groups (ascmhl: info / failing create / info "
        "without history; ascmhl-debug: verify), each compared with the bare command on an identical tree; plus real sub-processes (hanging and late "
        "servers) whose wall-clock is measured. distinct_nontrivial = distinct (group, server, version class, timing, command)."
    )
    out.coverage["exhaustive"] = True
    out.assumptions = ["timing bounds are wall-clock measurements with 0.9 s slack on a loaded 16-core sandbox", "stderr (where a dying worker thread's traceback goes) is not part of the statement"] + COMMON_ASSUMPTIONS[1:2]
    return out
